"""Shared runner: seeds, tiers, sharding, evidence, VIOLATION / KNOWN-FINDING lines.

A check module (checks/cNN_*.py) defines

    PROPERTY = "C14"
    RULE = "how cases are generated and what makes one non-trivial"
    ASSUMPTIONS = [...]
    SHARDS = {"quick": 8, "thorough": 16}      # optional
    def run(ctx): ...                           # executed once per shard
    def replay(case, ctx): ...                  # run the plain oracle on one saved case

Inside ``run`` the check calls ``ctx.hypothesis(strategy, fn, n)`` (generated search,
``fn(case, ctx)`` is the oracle on one JSON-able case) and/or ``ctx.enumerate(cases, fn)``.
The oracle reports through ``ctx.note_case`` (counting / non-triviality / classes) and
``ctx.check`` / ``ctx.fail`` (sub-check with a signature and a descriptor that is matched
against known_findings.json).
"""
import collections
import contextlib
import hashlib
import importlib
import json
import multiprocessing
import os
import pathlib
import shutil
import sys
import tempfile
import time
import traceback

VERIF = pathlib.Path(__file__).resolve().parent.parent
REPO = pathlib.Path(os.environ.get("VERIF_REPO", "/repo"))


class Violation(AssertionError):
    """Raised by ctx.fail for a violation that is not a listed known finding."""

    def __init__(self, subcheck, descriptor, detail):
        super().__init__(f"{subcheck}: {detail}")
        self.subcheck = subcheck
        self.descriptor = descriptor
        self.detail = detail


def guarded(fn, case, ctx):
    """``fn(case, ctx)``; an exception that escapes from the code under test (innermost frame inside the tree's
    ``src``) at a place where the check expects the call to work is a violation of the check's oracle, reported as
    such (sub-check ``unexpected-exception-in-library``) rather than as a harness error.  Exceptions raised by the
    harness itself stay harness errors."""
    import traceback
    info = None
    try:
        return fn(case, ctx)
    except (Violation, HarnessError, KeyboardInterrupt, SystemExit, MemoryError, GeneratorExit):
        raise
    except BaseException as exc:  # noqa
        if type(exc).__module__.startswith("hypothesis"):
            raise
        frames = traceback.extract_tb(exc.__traceback__)
        src = str(REPO / "src")
        if not frames or not str(frames[-1].filename).startswith(src):
            raise
        last = frames[-1]
        info = (type(exc).__name__, f"{pathlib.Path(last.filename).name}:{last.name}", str(exc)[:200])
    raise Violation("unexpected-exception-in-library", {"exception": info[0], "where": info[1]},
                    f"{info[0]} raised in {info[1]} where the check expects the call to work: {info[2]}")


class _Guard:
    ok = True
    exc = None


class HarnessError(Exception):
    """Something is wrong with the harness / generator, not with the code under test."""


def jsonable(obj):
    """Convert numpy scalars/arrays, tuples, sets, Paths, bytes to plain JSON values."""
    import numpy as np
    if isinstance(obj, dict):
        return {str(k): jsonable(v) for k, v in obj.items()}
    if isinstance(obj, (list, tuple)):
        return [jsonable(v) for v in obj]
    if isinstance(obj, (set, frozenset)):
        return sorted(jsonable(v) for v in obj)
    if isinstance(obj, np.ndarray):
        return jsonable(obj.tolist())
    if isinstance(obj, (np.bool_,)):
        return bool(obj)
    if isinstance(obj, np.integer):
        return int(obj)
    if isinstance(obj, np.floating):
        obj = float(obj)
    if isinstance(obj, float):
        if obj != obj:
            return "NaN"
        if obj in (float("inf"), float("-inf")):
            return "Infinity" if obj > 0 else "-Infinity"
        return obj
    if isinstance(obj, (pathlib.Path,)):
        return str(obj)
    if isinstance(obj, bytes):
        return obj.hex()
    if obj is None or isinstance(obj, (bool, int, str)):
        return obj
    return repr(obj)


def unjson_float(v):
    if v == "NaN":
        return float("nan")
    if v == "Infinity":
        return float("inf")
    if v == "-Infinity":
        return float("-inf")
    return v


def fingerprint(case):
    blob = json.dumps(jsonable(case), sort_keys=True, default=repr).encode()
    return hashlib.blake2b(blob, digest_size=8).hexdigest()


def slug(text):
    return "".join(c if c.isalnum() or c in "-_" else "_" for c in text)[:60]


# --------------------------------------------------------------------------
# known findings


class Findings:
    def __init__(self, prop):
        path = VERIF / "known_findings.json"
        self.entries = []
        if path.exists():
            data = json.loads(path.read_text())
            for e in data.get("findings", []):
                if e.get("property") == prop and e.get("status") == "finding":
                    self.entries.append(e)

    def match(self, subcheck, descriptor):
        """An entry matches when the sub-check is the same and every key of the
        entry's ``match`` dict is present in the descriptor with an equal value
        (or a value contained in the entry's list)."""
        for e in self.entries:
            subs = e["subcheck"] if isinstance(e["subcheck"], list) else [e["subcheck"]]
            if subcheck not in subs:
                continue
            ok = True
            for k, want in e.get("match", {}).items():
                got = descriptor.get(k, "<absent>")
                if isinstance(want, list):
                    if got not in want:
                        ok = False
                elif got != want:
                    ok = False
            if ok:
                return e
        return None


# --------------------------------------------------------------------------
# per-shard context


class Ctx:
    MAX_SAMPLES = 6

    def __init__(self, prop, tier, seed, shard, nshards, workdir):
        self.prop = prop
        self.tier = tier
        self.seed = seed
        self.shard = shard
        self.nshards = nshards
        self.workdir = pathlib.Path(workdir)
        self.findings = Findings(prop)
        self.evaluations = 0
        self.nontrivial = set()
        self.samples = []
        self.classes = collections.Counter()
        self.known = collections.Counter()
        self.known_examples = {}
        self.violations = []
        self.extra = {}
        self._last_fail = None
        self._sub = 0
        self.in_replay = False

    # ---- counting
    def note_case(self, case, nontrivial=True, classes=(), sample=None):
        """Count one executed case. ``case`` must be JSON-able (it is hashed for the
        distinct count); ``nontrivial`` is the property-specific rule."""
        self.evaluations += 1
        for c in classes:
            self.classes[c] += 1
        if nontrivial:
            fp = fingerprint(case)
            if fp not in self.nontrivial:
                self.nontrivial.add(fp)
                if len(self.samples) < self.MAX_SAMPLES:
                    self.samples.append(jsonable(sample if sample is not None else case))

    def event(self, label, n=1):
        self.classes[label] += n

    def scale(self, quick, thorough):
        """Number of generated cases for this shard."""
        total = quick if self.tier == "quick" else thorough
        mult = float(os.environ.get("VERIF_SCALE", "1"))
        return max(1, int(total * mult) // self.nshards)

    # ---- verdicts
    def fail(self, subcheck, descriptor, detail):
        descriptor = jsonable(descriptor or {})
        e = self.findings.match(subcheck, descriptor)
        if e is not None:
            key = e["id"]
            self.known[key] += 1
            self.known_examples.setdefault(key, {"what": e["what"], "example": detail[:300]})
            return False
        raise Violation(subcheck, descriptor, detail)

    def check(self, cond, subcheck, descriptor=None, detail=""):
        if not cond:
            return self.fail(subcheck, descriptor, detail if isinstance(detail, str) else repr(detail))
        return True

    @contextlib.contextmanager
    def no_raise(self, subcheck, descriptor=None, allowed=()):
        """The property implies this block does not raise: any exception from the
        code under test is a violation (BaseException because nanite's own error
        classes derive from BaseException)."""
        guard = _Guard()
        pending = None
        try:
            yield guard
        except (Violation, HarnessError, KeyboardInterrupt, SystemExit, MemoryError):
            raise
        except allowed:
            raise
        except BaseException as exc:  # noqa
            tb = traceback.extract_tb(exc.__traceback__)
            where = ""
            for fr in reversed(tb):
                if "/nanite/" in fr.filename:
                    where = f" at {pathlib.Path(fr.filename).name}:{fr.name}"
                    break
            d = dict(descriptor or {})
            d.setdefault("exception", type(exc).__name__)
            guard.ok = False     # if it is a listed known finding the caller skips the rest of the case
            guard.exc = exc
            pending = (d, f"raised {type(exc).__name__}: {str(exc)[:200]}{where}")
        if pending is not None:
            # verdict outside the except block: a Violation must not carry the library's exception
            # as __context__ (Hypothesis keys failures on the context chain -> flaky replays)
            self.fail(subcheck, *pending)

    # ---- drivers
    def hseed(self):
        self._sub += 1
        return (self.seed * 1000003 + self.shard * 1009 + self._sub * 7919) % (2**63)

    def hypothesis(self, strategy, fn, n, label=None):
        """Run ``fn(case, ctx)`` on ``n`` cases drawn from ``strategy``; a Violation is
        shrunk by Hypothesis and recorded with the minimal case."""
        import hypothesis
        from hypothesis import HealthCheck, Phase, given, settings

        phases = [Phase.explicit, Phase.generate, Phase.target, Phase.shrink]
        st = settings(max_examples=n, database=None, deadline=None, derandomize=False,
                      report_multiple_bugs=False, phases=phases,
                      suppress_health_check=[HealthCheck.too_slow, HealthCheck.data_too_large,
                                             HealthCheck.large_base_example,
                                             HealthCheck.filter_too_much],
                      print_blob=False, verbosity=hypothesis.Verbosity.quiet)
        holder = {}

        @hypothesis.seed(self.hseed())
        @st
        @given(strategy)
        def test(case):
            try:
                guarded(fn, case, self)
            except Violation as v:
                holder["last"] = (jsonable(case), v)
                raise

        try:
            test()
        except Violation as v:
            case, v2 = holder.get("last", (None, v))
            self.violations.append({"subcheck": v2.subcheck, "descriptor": v2.descriptor,
                                    "detail": v2.detail, "case": case, "label": label})
        except hypothesis.errors.FailedHealthCheck as exc:
            raise HarnessError(f"health check: {exc}") from exc
        except BaseException as exc:  # noqa
            # Hypothesis reports a failure that did not reproduce identically while shrinking as
            # Flaky / FlakyFailure (an exception group). If a Violation of the code under test was
            # observed it is reported (marked flaky); anything else is a harness error.
            if "Flaky" in type(exc).__name__ and "last" in holder:
                case, v2 = holder["last"]
                self.violations.append({"subcheck": v2.subcheck, "descriptor": v2.descriptor,
                                        "detail": "[not reproducible under replay: nondeterministic code "
                                                  "under test or optimizer] " + v2.detail,
                                        "case": case, "label": label})
            else:
                raise

    def direct(self, fn, case, label=None):
        """Run one fixed (not generated) sub-check; a Violation is recorded, not raised."""
        try:
            guarded(fn, case, self)
        except Violation as v:
            self.violations.append({"subcheck": v.subcheck, "descriptor": v.descriptor,
                                    "detail": v.detail, "case": jsonable(case), "label": label})

    def enumerate(self, cases, fn, label=None, stop_after=3):
        """Plain enumeration (finite spaces / replay pools); this shard takes every
        nshards-th case."""
        nv = 0
        for i, case in enumerate(cases):
            if i % self.nshards != self.shard:
                continue
            try:
                guarded(fn, case, self)
            except Violation as v:
                self.violations.append({"subcheck": v.subcheck, "descriptor": v.descriptor,
                                        "detail": v.detail, "case": jsonable(case), "label": label})
                nv += 1
                if nv >= stop_after:
                    break

    def result(self):
        return {"evaluations": self.evaluations, "nontrivial": sorted(self.nontrivial),
                "samples": self.samples, "classes": dict(self.classes),
                "known": dict(self.known), "known_examples": self.known_examples,
                "violations": self.violations, "extra": self.extra}


def load_check(prop):
    sys.path.insert(0, str(VERIF))
    matches = sorted((VERIF / "checks").glob(f"{prop.lower()}_*.py"))
    if not matches:
        raise HarnessError(f"no check module for {prop}")
    return importlib.import_module(f"checks.{matches[0].stem}")


def import_tree():
    """Import nanite from the working tree in /repo and make sure that is what we got."""
    src = str(REPO / "src")
    if src not in sys.path:
        sys.path.insert(0, src)
    deps = VERIF / ".deps"
    if deps.exists() and str(deps) not in sys.path:
        sys.path.append(str(deps))
    import nanite
    if not str(pathlib.Path(nanite.__file__).resolve()).startswith(str(REPO.resolve())):
        raise HarnessError(f"nanite imported from {nanite.__file__}, not from {REPO}")
    import warnings
    warnings.simplefilter("ignore")
    return nanite


def _shard_main(args):
    prop, tier, seed, shard, nshards, workroot = args
    try:
        import_tree()
        mod = load_check(prop)
        wd = pathlib.Path(workroot) / f"shard{shard}"
        wd.mkdir(parents=True, exist_ok=True)
        ctx = Ctx(prop, tier, seed, shard, nshards, wd)
        t0 = time.time()
        mod.run(ctx)
        res = ctx.result()
        res["wall"] = time.time() - t0
        return ("ok", res)
    except BaseException:  # noqa
        return ("error", traceback.format_exc())


def run_replays(prop, mod, workroot):
    """Regression tier: committed replay files are re-run without Hypothesis."""
    out = []
    rdir = VERIF / "replays" / prop
    files = sorted(rdir.glob("*.json")) if rdir.exists() else []
    ctx = Ctx(prop, "quick", 0, 0, 1, pathlib.Path(workroot) / "replay")
    ctx.workdir.mkdir(parents=True, exist_ok=True)
    ctx.in_replay = True
    for f in files:
        data = json.loads(f.read_text())
        try:
            guarded(mod.replay, data["case"], ctx)
        except Violation as v:
            out.append({"subcheck": v.subcheck, "descriptor": v.descriptor, "detail": v.detail,
                        "case": data["case"], "label": data.get("label"), "replay_file": str(f)})
    return len(files), out, ctx


def main(prop, tier, replay=None):
    t0 = time.time()
    seed = int(os.environ.get("VERIF_SEED", "1"))
    workroot = tempfile.mkdtemp(prefix=f"verif_{prop}_")
    # temporary files of the code under test (nanite.rate.io.load_hdf5 unpacks the embedded measurement files with
    # tempfile.mkdtemp and leaves them behind) go below the work root and are removed with it; shard processes and
    # child interpreters inherit both settings
    inner_tmp = pathlib.Path(workroot) / "tmp"
    inner_tmp.mkdir()
    os.environ["TMPDIR"] = str(inner_tmp)
    tempfile.tempdir = str(inner_tmp)
    status = 2
    try:
        import_tree()
        mod = load_check(prop)
        if replay:
            ctx = Ctx(prop, tier, seed, 0, 1, pathlib.Path(workroot))
            ctx.in_replay = True
            data = json.loads(pathlib.Path(replay).read_text())
            try:
                guarded(mod.replay, data["case"], ctx)
            except Violation as v:
                print(f"replay: {v.subcheck}: {v.detail}")
                print(f"VIOLATION property={prop} replay={replay}")
                return 1
            for key, n in ctx.known.items():
                print(f"KNOWN-FINDING: property={prop} {ctx.known_examples[key]['what']}")
            print("replay: property held on this case")
            return 0

        nrep, rep_viol, rep_ctx = run_replays(prop, mod, workroot)
        nshards = getattr(mod, "SHARDS", {}).get(tier, 16 if tier == "thorough" else 8)
        nshards = int(os.environ.get("VERIF_SHARDS", nshards))
        jobs = [(prop, tier, seed, s, nshards, workroot) for s in range(nshards)]
        if nshards == 1:
            results = [_shard_main(jobs[0])]
        else:
            mpctx = multiprocessing.get_context("fork")
            with mpctx.Pool(min(nshards, os.cpu_count() or 1)) as pool:
                results = pool.map(_shard_main, jobs, chunksize=1)
        errors = [r[1] for r in results if r[0] == "error"]
        if errors:
            print("HARNESS ERROR in shard:\n" + errors[0], file=sys.stderr)
            return 2
        results = [r[1] for r in results]

        evaluations = sum(r["evaluations"] for r in results) + rep_ctx.evaluations
        nontrivial = set()
        samples = []
        classes = collections.Counter()
        known = collections.Counter(rep_ctx.known)
        known_examples = dict(rep_ctx.known_examples)
        violations = list(rep_viol)
        extra = {}
        for r in results:
            nontrivial.update(r["nontrivial"])
            classes.update(r["classes"])
            known.update(r["known"])
            for k, v in r["known_examples"].items():
                known_examples.setdefault(k, v)
            violations.extend(r["violations"])
            for k, v in r["extra"].items():
                if isinstance(v, (int, float)) and isinstance(extra.get(k, 0), (int, float)):
                    if k.startswith("max_"):
                        extra[k] = max(extra.get(k, v), v)
                    else:
                        extra[k] = extra.get(k, 0) + v
                else:
                    extra.setdefault(k, v)
        nontrivial.update(rep_ctx.nontrivial)
        # interleave samples from shards
        for i in range(Ctx.MAX_SAMPLES):
            for r in results:
                if i < len(r["samples"]) and len(samples) < 8:
                    samples.append(r["samples"][i])

        # distinct violations by signature
        outdir = VERIF / "replays_out"
        seen = {}
        for v in violations:
            sig = v["subcheck"] + "|" + json.dumps(v["descriptor"], sort_keys=True)
            if sig in seen:
                continue
            if "replay_file" in v:
                path = pathlib.Path(v["replay_file"])
            else:
                outdir.mkdir(exist_ok=True)
                path = outdir / f"{prop}-{slug(v['subcheck'])}-s{seed}-{len(seen)}.json"
                path.write_text(json.dumps({"property": prop, "subcheck": v["subcheck"],
                                            "descriptor": v["descriptor"], "detail": v["detail"],
                                            "label": v.get("label"), "case": v["case"],
                                            "seed": seed, "tier": tier}, indent=1))
            seen[sig] = path
            print(f"  violation {v['subcheck']} {json.dumps(v['descriptor'])}: {v['detail'][:400]}")
            print(f"VIOLATION property={prop} replay={path}")
        for key, n in sorted(known.items()):
            print(f"KNOWN-FINDING: property={prop} {known_examples[key]['what']} "
                  f"[{key}; {n} generated cases excluded]")
        # one line per listed finding on every run: a finding that this run's cases did not meet is still listed
        for e in Findings(prop).entries:
            if e.get("id") not in known:
                print(f"KNOWN-FINDING: property={prop} {e['what']} [{e.get('id')}; not met by the cases of this run]")

        coverage = {
            "evaluations": int(evaluations),
            "distinct_nontrivial": len(nontrivial),
            "rule": mod.RULE,
            "samples": samples,
            "classes": dict(sorted(classes.items())),
            "replay_files_rerun": nrep,
            "shards": nshards,
            "known_findings_excluded": dict(known),
        }
        if getattr(mod, "EXHAUSTIVE", False):
            coverage["exhaustive"] = True
        coverage.update(extra)
        evidence = {
            "property_id": prop, "tier": tier, "seed": seed,
            "level": getattr(mod, "LEVEL", "exploration"),
            "coverage": coverage,
            "assumptions": list(getattr(mod, "ASSUMPTIONS", [])),
            "wall_s": round(time.time() - t0, 2),
            "violations": len(seen),
        }
        # evidence describes /repo itself; runs against a scratch tree (sensitivity
        # experiments) must not overwrite it
        evdir = VERIF / "evidence" if REPO.resolve() == pathlib.Path("/repo") else outdir / "evidence_scratch"
        evdir.mkdir(exist_ok=True, parents=True)
        (evdir / f"{prop}.json").write_text(json.dumps(evidence, indent=1) + "\n")
        print(f"{prop} {tier} seed={seed}: evaluations={evaluations} "
              f"distinct_nontrivial={len(nontrivial)} violations={len(seen)} "
              f"known={sum(known.values())} wall={evidence['wall_s']}s")
        if len(nontrivial) < 2 and not seen:
            print("HARNESS ERROR: fewer than 2 non-trivial cases generated", file=sys.stderr)
            return 2
        status = 1 if seen else 0
        return status
    except HarnessError as exc:
        print(f"HARNESS ERROR: {exc}", file=sys.stderr)
        return 2
    except Exception:  # noqa
        traceback.print_exc()
        return 2
    finally:
        shutil.rmtree(workroot, ignore_errors=True)
