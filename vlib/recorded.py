"""Recorded curves from $VERIF_REPO/tests/data as a second input pool (no ground truth:
relational oracles only).  Files are parsed once per process; every ``fresh`` call
returns a new in-memory Indentation built from copies of the raw arrays."""
import pathlib

from .runner import REPO

DATA = REPO / "tests" / "data"

#: (file name, enum) of curves that are "well-formed" (files not labelled bad, loadable)
GOOD = ([("fmt-jpk-fd_spot3-0192.jpk-force", 0),
         ("fmt-jpk-fd_flipsign_2015.05.22-15.31.49.352.jpk-force", 0),
         ("fmt-jpk-fd_map0d_extracted.jpk-force-map", 0),
         ("fmt-jpk-fd_single_tilted-baseline-drift-mitotic_2021-01-29.jpk-force", 0),
         ("fmt-jpk-fd_single_tilted-baseline-shift-adyp_2023-06-26.jpk-force", 0)]
        + [("fmt-jpk-fd_map-data-reference-points.jpk-force-map", i) for i in range(3)]
        + [("fmt-jpk-fd_map1d_2016-11-07.jpk-force-map", i) for i in range(8)]
        + [("fmt-jpk-fd_map2x2_extracted.jpk-force-map", i) for i in range(4)])

BAD = ([("fmt-jpk-fd_map_bad_2013-05-27_1.jpk-force-map", 0),
        ("fmt-jpk-fd_map_bad_2013-05-27_2.jpk-force-map", 0),
        ("fmt-jpk-fd_single_bad_GWAT_2017-10-17.jpk-force", 0)]
       + [(f"fmt-jpk-fd_single_bad_2017-01-16_{i}.jpk-force", 0) for i in range(1, 6)])

#: short ones first: used when a check needs cheap recorded curves
SMALL = [("fmt-jpk-fd_spot3-0192.jpk-force", 0),
         ("fmt-jpk-fd_single_tilted-baseline-shift-adyp_2023-06-26.jpk-force", 0)] + \
        [("fmt-jpk-fd_map1d_2016-11-07.jpk-force-map", i) for i in (0, 3, 7)]

_cache = {}


def _load(name):
    if name not in _cache:
        import nanite
        grp = nanite.IndentationGroup(DATA / name)
        out = []
        for idnt in grp:
            raw = {c: idnt[c].copy() for c in idnt.columns}
            out.append((raw, dict(idnt.metadata)))
        _cache[name] = out
    return _cache[name]


def fresh(name, enum=0):
    from nanite.indent import Indentation
    raw, md = _load(name)[enum]
    return Indentation(data={c: a.copy() for c, a in raw.items()}, metadata=dict(md))


def path(name):
    return pathlib.Path(DATA / name)
