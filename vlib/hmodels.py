"""Harness-defined fit models (user-supplied models in the sense of C13/C18).

They are plain module objects built at run time, registered into nanite's model
registry by the checks that need them and deregistered afterwards.
"""
import types

import lmfit
import numpy as np

#: orientation log: list of bools "delta[0] >= delta[-1]" seen by the order-sensitive model
SEEN_ORIENTATION = []


def order_sensitive_module():
    """Hertz paraboloid written with a running maximum over the depth: correct only if
    the function sees approach-ordered data (depth non-decreasing with index)."""
    m = types.ModuleType("verif_model_order")

    def get_parameter_defaults():
        params = lmfit.Parameters()
        params.add("E", value=3e3, min=0)
        params.add("R", value=10e-6, min=0, vary=False)
        params.add("nu", value=.5, min=0, max=0.5, vary=False)
        params.add("contact_point", value=0)
        params.add("baseline", value=0)
        return params

    def model_func(delta, E, R, nu, contact_point=0, baseline=0):
        if delta.size > 1:
            SEEN_ORIENTATION.append(bool(delta[0] >= delta[-1]))
        depth = contact_point - delta
        depth = np.where(depth > 0, depth, 0.0)
        run = np.maximum.accumulate(depth)
        return 4 / 3 * E / (1 - nu ** 2) * np.sqrt(R) * run ** 1.5 + baseline

    m.get_parameter_defaults = get_parameter_defaults
    m.model_func = model_func
    m.model_doc = "order sensitive Hertz (verification harness)"
    m.model_key = "verif_order"
    m.model_name = "verif: order sensitive"
    m.parameter_keys = ["E", "R", "nu", "contact_point", "baseline"]
    m.parameter_names = ["Young's Modulus", "Tip Radius", "Poisson's Ratio", "Contact Point",
                         "Force Baseline"]
    m.parameter_units = ["Pa", "m", "", "m", "N"]
    m.valid_axes_x = ["tip position"]
    m.valid_axes_y = ["force"]
    return m


def lead_sensitive_module():
    """Hertz paraboloid whose amplitude depends on how far before the contact point the record starts
    (delta[0] - contact_point of the approach-ordered abscissa): not a point-wise function of delta, so it is
    correct only if the function receives the whole abscissa, approach-ordered, in one piece."""
    m = types.ModuleType("verif_model_lead")

    def get_parameter_defaults():
        params = lmfit.Parameters()
        params.add("E", value=3e3, min=0)
        params.add("R", value=10e-6, min=0, vary=False)
        params.add("nu", value=.5, min=0, max=0.5, vary=False)
        params.add("_gain", value=1.0, min=0.1, max=10, vary=False)
        params.add("contact_point", value=0)
        params.add("baseline", value=0)
        return params

    def model_func(delta, E, R, nu, _gain=1.0, contact_point=0, baseline=0):
        lead = max(float(delta[0]) - contact_point, 0.0) if delta.size else 0.0
        factor = _gain * (1.0 + lead / (lead + 1e-6))
        depth = contact_point - delta
        depth = np.where(depth > 0, depth, 0.0)
        return factor * 4 / 3 * E / (1 - nu ** 2) * np.sqrt(R) * depth ** 1.5 + baseline

    m.get_parameter_defaults = get_parameter_defaults
    m.model_func = model_func
    m.model_doc = "Hertz with a record-start dependent amplitude (verification harness)"
    m.model_key = "verif_lead"
    m.model_name = "verif: lead sensitive"
    m.parameter_keys = ["E", "R", "nu", "_gain", "contact_point", "baseline"]
    m.parameter_names = ["Young's Modulus", "Tip Radius", "Poisson's Ratio", "Hidden Gain", "Contact Point",
                         "Force Baseline"]
    m.parameter_units = ["Pa", "m", "", "", "m", "N"]
    m.valid_axes_x = ["tip position"]
    m.valid_axes_y = ["force"]
    return m


def expr_module():
    """Cone model with a second modulus constrained by an expression (E2 = 2*E) and an
    ancillary parameter whose key matches the fit parameter E."""
    m = types.ModuleType("verif_model_expr")

    def get_parameter_defaults():
        params = lmfit.Parameters()
        params.add("E", value=3e3, min=0)
        params.add("E2", expr="2*E")
        params.add("alpha", value=25, min=0, max=90, vary=False)
        params.add("contact_point", value=0)
        params.add("baseline", value=0)
        return params

    def model_func(delta, E, E2, alpha, contact_point=0, baseline=0):
        depth = contact_point - delta
        depth = np.where(depth > 0, depth, 0.0)
        return (E + E2) / 3 * np.tan(np.radians(alpha)) * depth ** 2 + baseline

    def compute_ancillaries(fd):
        return {"E": m.ANC_E, "verif_anc": 42.0}

    m.ANC_E = np.nan
    m.get_parameter_defaults = get_parameter_defaults
    m.model_func = model_func
    m.compute_ancillaries = compute_ancillaries
    m.parameter_anc_keys = ["E", "verif_anc"]
    m.parameter_anc_names = ["ancillary modulus", "verif ancillary"]
    m.parameter_anc_units = ["Pa", ""]
    m.model_doc = "cone with expression constrained second modulus (verification harness)"
    m.model_key = "verif_expr"
    m.model_name = "verif: expression"
    m.parameter_keys = ["E", "E2", "alpha", "contact_point", "baseline"]
    m.parameter_names = ["Young's Modulus", "Second Modulus", "Half Cone Angle", "Contact Point",
                         "Force Baseline"]
    m.parameter_units = ["Pa", "Pa", "°", "m", "N"]
    m.valid_axes_x = ["tip position"]
    m.valid_axes_y = ["force"]
    return m


def register_all():
    from nanite import model as nmodel
    mods = [order_sensitive_module(), expr_module(), lead_sensitive_module()]
    for m in mods:
        nmodel.register_model(m)
    return mods


def deregister_all(mods):
    from nanite import model as nmodel
    for m in mods:
        if m.model_key in nmodel.models_available:
            nmodel.deregister_model(nmodel.models_available[m.model_key])
