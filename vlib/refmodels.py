"""Independent reference implementations of the five shipped contact models.

Written from the published formulas (Hertz / Sneddon 1965 / Bilodeau 1992 / the
5-term Sneddon sphere series / Clifford 2009 eq. 9, 10), *not* from nanite's
code.  Two flavours: numpy float64 (fast, used to synthesise curves) and
mpmath (40 digits, used as the round-off oracle of C02).
"""
import math

import numpy as np

MODELS = ["hertz_para", "hertz_cone", "hertz_pyr3s", "sneddon_spher_approx",
          "power_layer_clifford_2009"]

# exponent p of F ~ E * depth**p (power-law models only)
POWER = {"hertz_para": 1.5, "hertz_cone": 2.0, "hertz_pyr3s": 2.0}

#: name of the modulus parameter
EKEY = {m: "E" for m in MODELS}
EKEY["power_layer_clifford_2009"] = "E_S"

SERIES = (1.0, -1.0 / 10, -1.0 / 840, 11.0 / 15120, 1357.0 / 6652800)
BILODEAU = 0.8887
CLIFFORD = dict(P=2.25, n=1.5, m=2.0 / 3, B_S=0.22, B_L=1.92)


def depth(delta, cp):
    d = cp - np.asarray(delta, dtype=float)
    return np.where(d > 0, d, 0.0)


def force(model, delta, p):
    """float64 reference force for parameter dict ``p`` (includes contact_point, baseline)"""
    d = depth(delta, p["contact_point"])
    if model == "hertz_para":
        f = 4.0 / 3 * p["E"] / (1 - p["nu"] ** 2) * math.sqrt(p["R"]) * d ** 1.5
    elif model == "hertz_cone":
        f = 2 * math.tan(math.radians(p["alpha"])) / math.pi * p["E"] / (1 - p["nu"] ** 2) * d ** 2
    elif model == "hertz_pyr3s":
        f = BILODEAU * math.tan(math.radians(p["alpha"])) * p["E"] / (1 - p["nu"] ** 2) * d ** 2
    elif model == "sneddon_spher_approx":
        x = d / p["R"]
        ser = sum(c * x ** i for i, c in enumerate(SERIES))
        f = 4.0 / 3 * p["E"] / (1 - p["nu"] ** 2) * math.sqrt(p["R"]) * d ** 1.5 * ser
    elif model == "power_layer_clifford_2009":
        c = CLIFFORD
        xi = (np.sqrt(p["R"] * d) / p["t"] * (p["E_L"] / p["E_S"]) ** c["m"]
              * (1 - c["B_S"] * p["nu_S"] ** 2) / (1 - c["B_L"] * p["nu_L"] ** 2))
        pxn = c["P"] * xi ** c["n"]
        estar = p["E_L"] + (p["E_S"] - p["E_L"]) * pxn / (1 + pxn)
        f = 4.0 / 3 * estar * math.sqrt(p["R"]) * d ** 1.5
    else:
        raise KeyError(model)
    return f + p["baseline"]


def force_mp(model, delta, p, dps=40):
    """mpmath reference; returns list of mpf"""
    import mpmath as mp
    mp.mp.dps = dps
    P = {k: mp.mpf(float(v)) for k, v in p.items()}
    out = []
    for x in np.asarray(delta, dtype=float):
        d = P["contact_point"] - mp.mpf(float(x))
        if d <= 0:
            out.append(P["baseline"])
            continue
        if model == "hertz_para":
            f = mp.mpf(4) / 3 * P["E"] / (1 - P["nu"] ** 2) * mp.sqrt(P["R"]) * d ** mp.mpf("1.5")
        elif model == "hertz_cone":
            f = 2 * mp.tan(P["alpha"] * mp.pi / 180) / mp.pi * P["E"] / (1 - P["nu"] ** 2) * d ** 2
        elif model == "hertz_pyr3s":
            f = mp.mpf("0.8887") * mp.tan(P["alpha"] * mp.pi / 180) * P["E"] / (1 - P["nu"] ** 2) * d ** 2
        elif model == "sneddon_spher_approx":
            x_ = d / P["R"]
            ser = (1 - x_ / 10 - x_ ** 2 / 840 + mp.mpf(11) / 15120 * x_ ** 3
                   + mp.mpf(1357) / 6652800 * x_ ** 4)
            f = mp.mpf(4) / 3 * P["E"] / (1 - P["nu"] ** 2) * mp.sqrt(P["R"]) * d ** mp.mpf("1.5") * ser
        elif model == "power_layer_clifford_2009":
            xi = (mp.sqrt(P["R"] * d) / P["t"] * (P["E_L"] / P["E_S"]) ** (mp.mpf(2) / 3)
                  * (1 - mp.mpf("0.22") * P["nu_S"] ** 2) / (1 - mp.mpf("1.92") * P["nu_L"] ** 2))
            pxn = mp.mpf("2.25") * xi ** mp.mpf("1.5")
            estar = P["E_L"] + (P["E_S"] - P["E_L"]) * pxn / (1 + pxn)
            f = mp.mpf(4) / 3 * estar * mp.sqrt(P["R"]) * d ** mp.mpf("1.5")
        else:
            raise KeyError(model)
        out.append(f + P["baseline"])
    return out


def sneddon_sphere_exact(d, E, R, nu):
    """Exact (implicit) Sneddon solution for a rigid sphere: contact radius a solves
    d = a/2 * ln((R+a)/(R-a));  F = E/(1-nu^2) * ((R^2+a^2)/2 * ln((R+a)/(R-a)) - a R)."""
    from scipy.optimize import brentq
    d = np.atleast_1d(np.asarray(d, dtype=float))
    out = np.zeros_like(d)
    for i, di in enumerate(d):
        if di <= 0:
            continue
        g = lambda a: a / 2 * math.log((R + a) / (R - a)) - di  # noqa: E731
        hi = R * (1 - 1e-16)
        lo = 0.0
        # g(hi) -> +inf; make sure of the bracket
        a = brentq(g, lo, R * (1 - 1e-15), xtol=1e-30, rtol=1e-15, maxiter=500)
        L = math.log((R + a) / (R - a))
        out[i] = E / (1 - nu ** 2) * ((R * R + a * a) / 2 * L - a * R)
        del hi
    return out
