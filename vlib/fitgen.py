"""Helpers shared by the fit-related checks: curve preparation, initial parameters,
an lmfit.minimize recorder (harness side, no source hook) and value snapshots."""
import contextlib
import copy

import numpy as np

from . import refmodels, synth

FIT_KEYS = ["model_key", "optimal_fit_edelta", "optimal_fit_num_samples", "params_initial",
            "preprocessing", "preprocessing_options", "range_type", "range_x", "segment",
            "weight_cp", "gcf_k", "x_axis", "y_axis", "method", "method_kws"]
RESULT_KEYS = ["chi_sqr", "hash", "optimal_fit_delta_array", "optimal_fit_delta",
               "optimal_fit_E_array", "params_fitted", "success", "xmax", "xmin"]


def prep_curve(case):
    """fresh curve with a 'tip position' column (innate or via tip-sample separation)"""
    idnt = synth.build(case)
    if not case.get("with_tip"):
        idnt.apply_preprocessing(["compute_tip_position"])
    return idnt


def make_params(model_key, values=None, vary=None):
    """lmfit Parameters of a registered model with values / vary flags overridden"""
    from nanite import model as nmodel
    params = nmodel.models_available[model_key].get_parameter_defaults()
    for k, v in (values or {}).items():
        params[k].set(value=v)
    for k, v in (vary or {}).items():
        params[k].set(vary=v)
    return params


def initial_from_truth(case, e_factor=1.0, cp_off=0.0, bl_off=0.0, vary=None):
    """initial guess: modulus off by e_factor, contact point off by cp_off*depth,
    baseline off by bl_off*force range; everything else at truth"""
    model = case["model"]
    truth = case["params"]
    vals = dict(truth)
    ek = refmodels.EKEY[model]
    vals[ek] = truth[ek] * e_factor
    vals["contact_point"] = truth["contact_point"] + cp_off * case["depth"]
    frange = synth.arrays(case)["frange"]
    vals["baseline"] = truth["baseline"] + bl_off * frange
    params = make_params(model, vals, vary)
    if model == "power_layer_clifford_2009":
        # layer parameters are not identifiable together with E_S: fixed at truth
        for k in ("E_L", "t"):
            params[k].set(vary=False)
    return params


def pstate(params):
    if params is None:
        return None
    return {k: (p.value, p.min, p.max, p.vary, p.expr) for k, p in params.items()}


def pvalues(params):
    return {k: p.value for k, p in params.items()}


class MinimizeRecorder:
    """Wraps lmfit.minimize for the duration of a with-block and records every call made
    by nanite's fitter (recognised by fcn=<model residual> keyword and 3 data args)."""

    def __init__(self):
        self.calls = []
        self.other = 0
        self.aborted = False

    def __enter__(self):
        import lmfit
        self._lmfit = lmfit
        self._orig = lmfit.minimize
        rec = self

        def wrapped(*args, **kwargs):
            fcn = kwargs.get("fcn")
            a = kwargs.get("args", ())
            if fcn is not None and len(a) == 3:
                p = kwargs.get("params")
                rec.calls.append({"params": pstate(p), "x": np.array(a[0], copy=True),
                                  "y": np.array(a[1], copy=True), "weight_cp": a[2],
                                  "method": kwargs.get("method")})
                out = rec._orig(*args, **kwargs)
                # parameter values as returned by the optimiser (before the caller edits them)
                rec.calls[-1]["result"] = {k: v.value for k, v in out.params.items()}
                rec.calls[-1]["chisqr"] = float(getattr(out, "chisqr", float("nan")))
                # lmfit 1.3.4: a fit aborted by max_nfev returns optimiser-internal leftovers that are not
                # reproducible for identical input (measured); differential oracles must skip such fits
                rec.calls[-1]["aborted"] = bool(getattr(out, "aborted", False))
                rec.aborted = rec.aborted or rec.calls[-1]["aborted"]
                return out
            rec.other += 1
            return rec._orig(*args, **kwargs)

        lmfit.minimize = wrapped
        return self

    def __exit__(self, *exc):
        self._lmfit.minimize = self._orig
        return False


def snapshot(idnt, columns=True):
    """deep value snapshot of a curve: settings, results, columns (bytes), preprocessing, rating"""
    fp = idnt.fit_properties
    d = {}
    for k, v in fp.items():
        if k.startswith("params"):
            d[k] = pstate(v)
        elif isinstance(v, np.ndarray):
            d[k] = (str(v.dtype), v.shape, v.tobytes())
        else:
            d[k] = copy.deepcopy(v)
    out = {"fp": d, "preprocessing": copy.deepcopy(idnt.preprocessing),
           "preprocessing_options": copy.deepcopy(idnt.preprocessing_options),
           "rating": copy.deepcopy(idnt._rating)}
    if columns:
        out["columns"] = {c: (str(idnt[c].dtype), idnt[c].tobytes()) for c in sorted(idnt.columns)}
    return out


def deep_state(obj):
    """value snapshot of an arbitrary argument object (for taken-by-value checks)"""
    import lmfit
    if isinstance(obj, lmfit.Parameters):
        return ("Parameters", pstate(obj))
    if isinstance(obj, np.ndarray):
        return ("ndarray", str(obj.dtype), obj.shape, obj.tobytes())
    if isinstance(obj, dict):
        return ("dict", [(k, deep_state(v)) for k, v in obj.items()])
    if isinstance(obj, (list, tuple)):
        return (type(obj).__name__, [deep_state(v) for v in obj])
    return obj


@contextlib.contextmanager
def catch(kinds=(BaseException,)):
    """collect an exception of the code under test without letting harness signals through"""
    box = {"exc": None}
    try:
        yield box
    except (KeyboardInterrupt, SystemExit, MemoryError):
        raise
    except kinds as exc:  # noqa
        from .runner import HarnessError, Violation
        if isinstance(exc, (Violation, HarnessError)):
            raise
        box["exc"] = exc


# -------------------------------------------------------------------------
# curve sources and fit configurations (JSON-able records)

DEFAULT_PRE = ["compute_tip_position", "correct_force_offset", "correct_tip_offset"]


def st_source(st, synth_kwargs=None, recorded=None, p_recorded=0.2):
    """strategy for a curve source record: synthetic (parametric) or recorded (file, enum)"""
    from . import recorded as rec
    pool = list(recorded if recorded is not None else rec.SMALL)
    kw = dict(n_range=(60, 700), noise=st.sampled_from([0.0, 1e-3, 1e-2, 3e-2]), wide=False,
              tilt=True)
    kw.update(synth_kwargs or {})
    syn = synth.st_curve(st, **kw).map(lambda c: {"kind": "synth", "curve": c})
    if not pool or p_recorded <= 0:
        return syn
    recs = st.sampled_from(pool).map(lambda ne: {"kind": "recorded", "name": ne[0], "enum": ne[1]})
    n_rec = max(1, int(round(p_recorded * 20)))

    @st.composite
    def _src(draw):
        kind = draw(st.sampled_from(["recorded"] * n_rec + ["synth"] * (20 - n_rec)))
        return draw(recs if kind == "recorded" else syn)

    return _src()


def build_source(src, preprocess=True):
    """fresh curve for a source record, preprocessed so that 'tip position' exists"""
    from . import recorded as rec
    if src["kind"] == "synth":
        idnt = synth.build(src["curve"])
        if preprocess:
            pre = src.get("pre")
            if pre is None:
                pre = [] if src["curve"].get("with_tip") else ["compute_tip_position"]
            if pre:
                idnt.apply_preprocessing(list(pre), dict(src.get("pre_options", {})))
    else:
        idnt = rec.fresh(src["name"], src["enum"])
        if preprocess:
            idnt.apply_preprocessing(list(src.get("pre", DEFAULT_PRE)), dict(src.get("pre_options", {})))
    return idnt


def resolve_range(idnt, cfg):
    """interval in x-axis units from the fractional spec of a fit configuration"""
    rf = cfg.get("range_frac")
    if rf is None:
        return [0, 0]
    x = idnt["tip position"]
    lo, hi = float(np.min(x)), float(np.max(x))
    span = hi - lo
    vals = []
    for f in rf:
        if f in ("inf", "-inf"):
            vals.append(float(f))
        elif cfg.get("range_type") == "relative cp":
            vals.append(f * span)
        else:
            vals.append(lo + f * span)
    if cfg.get("range_on_samples") and cfg.get("range_type") != "relative cp":
        # snap the bounds onto sample abscissae of the fitted segment
        seg = idnt["segment"] == cfg.get("segment", 0)
        xs = np.sort(x[seg])
        if xs.size:
            vals = [float(xs[np.argmin(np.abs(xs - v))]) if np.isfinite(v) else v for v in vals]
    return vals


def st_fit_cfg(st, models=None, methods=("leastsq", "nelder"), gcf=True, plateau=False,
               tiny_ranges=False):
    """strategy for a fit configuration record"""
    models = list(models or refmodels.MODELS)

    @st.composite
    def _cfg(draw):
        rt = draw(st.sampled_from(["absolute", "absolute", "relative cp"]))
        kind = draw(st.sampled_from(["full", "interval", "interval", "inverted", "onesided", "samples"]
                                    + (["tiny"] if tiny_ranges else [])))
        a, b = sorted([draw(st.floats(0.0, 1.0)), draw(st.floats(0.0, 1.0))])
        if rt == "relative cp":
            a, b = -draw(st.floats(0.02, 1.0)), draw(st.floats(0.02, 1.0))
        rf = [a, b]
        if kind == "full":
            rf = None
        elif kind == "inverted":
            rf = [b, a]
        elif kind == "onesided":
            rf = draw(st.sampled_from([["-inf", b], [a, "inf"]]))
        elif kind == "tiny":
            rf = [a, a + draw(st.floats(0.0, 0.01))]
        cfg = {"model_key": draw(st.sampled_from(models)),
               "segment": draw(st.sampled_from([0, 0, 1, "approach", "retract"])),
               "range_type": rt, "range_frac": rf, "range_on_samples": kind == "samples",
               "weight_cp": draw(st.sampled_from([0, False, 1e-8, 1e-7, 5e-7, 2e-6, 5e-6])),
               "gcf_k": draw(st.sampled_from([1.0, 1.0, 0.5, 2.0]) if gcf else st.just(1.0)),
               "method": draw(st.sampled_from(list(methods))),
               "optimal_fit_edelta": False}
        if gcf and draw(st.booleans()) and cfg["gcf_k"] != 1.0:
            cfg["gcf_k"] = draw(st.floats(0.05, 2.0))
        if plateau and draw(st.integers(0, 5)) == 0:
            cfg.update(optimal_fit_edelta=True, range_type="absolute", segment=0,
                       optimal_fit_num_samples=draw(st.integers(7, 16)))
        return cfg

    return _cfg()


def fit_kwargs(idnt, cfg, params_initial=None):
    kw = {"model_key": cfg["model_key"], "segment": cfg["segment"], "range_type": cfg["range_type"],
          "range_x": resolve_range(idnt, cfg), "weight_cp": cfg["weight_cp"], "gcf_k": cfg["gcf_k"],
          "method": cfg["method"], "optimal_fit_edelta": cfg.get("optimal_fit_edelta", False)}
    if cfg.get("optimal_fit_edelta"):
        kw["optimal_fit_num_samples"] = cfg["optimal_fit_num_samples"]
    if cfg.get("method_kws") is not None:
        kw["method_kws"] = dict(cfg["method_kws"])
    if params_initial is not None:
        kw["params_initial"] = params_initial
    return kw


def seg_id(segment):
    return {"approach": 0, "retract": 1}.get(segment, segment)
