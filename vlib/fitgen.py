"""Helpers shared by the fit-related checks: curve preparation, initial parameters,
an lmfit.minimize recorder (harness side, no source hook) and value snapshots."""
import contextlib
import copy

import numpy as np

from . import refmodels, synth

FIT_KEYS = ["model_key", "optimal_fit_edelta", "optimal_fit_num_samples", "params_initial",
            "preprocessing", "preprocessing_options", "range_type", "range_x", "segment",
            "weight_cp", "gcf_k", "x_axis", "y_axis", "method", "method_kws"]
RESULT_KEYS = ["chi_sqr", "hash", "optimal_fit_delta_array", "optimal_fit_delta",
               "optimal_fit_E_array", "params_fitted", "success", "xmax", "xmin"]


def prep_curve(case):
    """fresh curve with a 'tip position' column (innate or via tip-sample separation)"""
    idnt = synth.build(case)
    if not case.get("with_tip"):
        idnt.apply_preprocessing(["compute_tip_position"])
    return idnt


def make_params(model_key, values=None, vary=None):
    """lmfit Parameters of a registered model with values / vary flags overridden"""
    from nanite import model as nmodel
    params = nmodel.models_available[model_key].get_parameter_defaults()
    for k, v in (values or {}).items():
        params[k].set(value=v)
    for k, v in (vary or {}).items():
        params[k].set(vary=v)
    return params


def initial_from_truth(case, e_factor=1.0, cp_off=0.0, bl_off=0.0, vary=None):
    """initial guess: modulus off by e_factor, contact point off by cp_off*depth,
    baseline off by bl_off*force range; everything else at truth"""
    model = case["model"]
    truth = case["params"]
    vals = dict(truth)
    ek = refmodels.EKEY[model]
    vals[ek] = truth[ek] * e_factor
    vals["contact_point"] = truth["contact_point"] + cp_off * case["depth"]
    frange = synth.arrays(case)["frange"]
    vals["baseline"] = truth["baseline"] + bl_off * frange
    params = make_params(model, vals, vary)
    if model == "power_layer_clifford_2009":
        # layer parameters are not identifiable together with E_S: fixed at truth
        for k in ("E_L", "t"):
            params[k].set(vary=False)
    return params


def pstate(params):
    if params is None:
        return None
    return {k: (p.value, p.min, p.max, p.vary, p.expr) for k, p in params.items()}


def pvalues(params):
    return {k: p.value for k, p in params.items()}


class MinimizeRecorder:
    """Wraps lmfit.minimize for the duration of a with-block and records every call made
    by nanite's fitter (recognised by fcn=<model residual> keyword and 3 data args)."""

    def __init__(self):
        self.calls = []
        self.other = 0

    def __enter__(self):
        import lmfit
        self._lmfit = lmfit
        self._orig = lmfit.minimize
        rec = self

        def wrapped(*args, **kwargs):
            fcn = kwargs.get("fcn")
            a = kwargs.get("args", ())
            if fcn is not None and len(a) == 3:
                p = kwargs.get("params")
                rec.calls.append({"params": pstate(p), "x": np.array(a[0], copy=True),
                                  "y": np.array(a[1], copy=True), "weight_cp": a[2],
                                  "method": kwargs.get("method")})
            else:
                rec.other += 1
            return rec._orig(*args, **kwargs)

        lmfit.minimize = wrapped
        return self

    def __exit__(self, *exc):
        self._lmfit.minimize = self._orig
        return False


def snapshot(idnt, columns=True):
    """deep value snapshot of a curve: settings, results, columns (bytes), preprocessing, rating"""
    fp = idnt.fit_properties
    d = {}
    for k, v in fp.items():
        if k.startswith("params"):
            d[k] = pstate(v)
        elif isinstance(v, np.ndarray):
            d[k] = (str(v.dtype), v.shape, v.tobytes())
        else:
            d[k] = copy.deepcopy(v)
    out = {"fp": d, "preprocessing": copy.deepcopy(idnt.preprocessing),
           "preprocessing_options": copy.deepcopy(idnt.preprocessing_options),
           "rating": copy.deepcopy(idnt._rating)}
    if columns:
        out["columns"] = {c: (str(idnt[c].dtype), idnt[c].tobytes()) for c in sorted(idnt.columns)}
    return out


def deep_state(obj):
    """value snapshot of an arbitrary argument object (for taken-by-value checks)"""
    import lmfit
    if isinstance(obj, lmfit.Parameters):
        return ("Parameters", pstate(obj))
    if isinstance(obj, np.ndarray):
        return ("ndarray", str(obj.dtype), obj.shape, obj.tobytes())
    if isinstance(obj, dict):
        return ("dict", [(k, deep_state(v)) for k, v in obj.items()])
    if isinstance(obj, (list, tuple)):
        return (type(obj).__name__, [deep_state(v) for v in obj])
    return obj


@contextlib.contextmanager
def catch(kinds=(BaseException,)):
    """collect an exception of the code under test without letting harness signals through"""
    box = {"exc": None}
    try:
        yield box
    except (KeyboardInterrupt, SystemExit, MemoryError):
        raise
    except kinds as exc:  # noqa
        from .runner import HarnessError, Violation
        if isinstance(exc, (Violation, HarnessError)):
            raise
        box["exc"] = exc
