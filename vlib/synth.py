"""Synthetic force-distance curves with known ground truth.

A curve is a pure function of a small JSON-able parameter record (``case``), so
Hypothesis can shrink it and a replay file can rebuild it.  Forces come from the
independent reference formulas in ``refmodels`` (not from nanite's model code).

Geometry: the tip moves from ``cp + z0`` (above the sample) down to ``cp - depth``
in ``n_app`` samples and back up in ``n_ret`` samples; ``force = F_model(tip)``;
``height (measured) = tip - force / k`` so that nanite's tip-sample separation
reproduces ``tip`` exactly up to one rounding.
"""
import copy
import pathlib

import numpy as np

from . import refmodels

DEFAULT_PARAMS = {
    "hertz_para": {"E": 3e3, "R": 10e-6, "nu": 0.5},
    "hertz_cone": {"E": 3e3, "alpha": 25.0, "nu": 0.5},
    "hertz_pyr3s": {"E": 3e3, "alpha": 5.0, "nu": 0.5},
    "sneddon_spher_approx": {"E": 3e3, "R": 10e-6, "nu": 0.5},
    "power_layer_clifford_2009": {"E_S": 3e3, "E_L": 20.0, "R": 10e-6, "nu_S": 0.3,
                                  "nu_L": 0.3, "t": 0.1e-6},
}


def base_case(model="hertz_para", **kw):
    case = {
        "model": model,
        "params": dict(DEFAULT_PARAMS[model], contact_point=0.0, baseline=0.0),
        "n_app": 400, "n_ret": 400,
        "z0": 2e-6,          # baseline length above the contact point [m]
        "depth": 1e-6,       # maximum indentation [m]
        "k": 0.05,           # spring constant [N/m]
        "noise": 0.0,        # gaussian sigma relative to the force range of the clean curve
        "noise_seed": 0,
        "tilt": 0.0,         # spatial baseline slope, relative: force range per full travel
        "drift": 0.0,        # temporal drift, relative: force range per full record time
        "lag": 0,            # the recorded segment flag flips `lag` samples before the turning point
        "quant": 0.0,        # height quantisation (LSB) [m]; 0 = none
        "sampling": "linear",  # linear | jitter | quadratic
        "with_tip": False,   # provide an innate "tip position" column
        "enum": 0,
    }
    params = kw.pop("params", None)
    case.update(kw)
    if params:
        case["params"].update(params)
    return case


def tip_path(case):
    n_app, n_ret = int(case["n_app"]), int(case["n_ret"])
    cp = case["params"]["contact_point"]
    top, bot = cp + case["z0"], cp - case["depth"]
    samp = case.get("sampling", "linear")
    ua = np.linspace(0, 1, n_app)
    ur = np.linspace(0, 1, n_ret + 1)[1:]
    if samp == "quadratic":
        ua = ua ** 1.7
        ur = 1 - (1 - ur) ** 1.7
    elif samp in ("jitter", "dither"):
        # jitter keeps the path monotonic; dither (a ramp with a z-dither / position sensor noise of +-1.6 sample
        # steps) does not: neighbouring samples swap places, only the end points stay where they are
        amp = 0.4 if samp == "jitter" else 1.6
        rng = np.random.RandomState(int(case.get("noise_seed", 0)) + 7919)
        for u in (ua, ur):
            if u.size > 2:
                step = np.min(np.diff(u))
                u[1:-1] += rng.uniform(-amp, amp, size=u.size - 2) * step
    ring = case.get("ring")
    if ring:
        # the piezo holds the turning point for ``n`` samples (recorded with the retract) while the
        # tip rings, damped, with ``amp`` x travel: a height that is not monotonic by a tiny amount
        m = max(1, min(int(ring["n"]), n_ret - 2))
        ur = np.linspace(0, 1, n_ret - m + 1)[1:]
        if samp == "quadratic":
            ur = 1 - (1 - ur) ** 1.7
    tip_a = top + (bot - top) * ua
    tip_r = bot + (top - bot) * ur
    if ring:
        jj = np.arange(m)
        hold = bot + ring["amp"] * (top - bot) * np.exp(-jj / ring["tau"]) * np.sin(2 * np.pi * (jj + 0.5) / ring["period"])
        tip_r = np.concatenate([hold, tip_r])
    n_pause = int(case.get("n_pause") or 0)
    if n_pause:
        # a dwell at maximum indentation: third segment between approach and retract
        return np.concatenate([tip_a, np.full(n_pause, bot), tip_r])
    return np.concatenate([tip_a, tip_r])


def arrays(case):
    """Return dict(tip, force, clean_force, height, segment, time, frange)"""
    n_app, n_ret = int(case["n_app"]), int(case["n_ret"])
    n_pause = int(case.get("n_pause") or 0)
    n = n_app + n_pause + n_ret
    tip = tip_path(case)
    clean = refmodels.force(case["model"], tip, case["params"])
    frange = float(clean.max() - clean.min())
    if not frange > 0:
        frange = 1e-9
    force = clean.copy()
    t = np.arange(n) * 1e-3
    if case.get("tilt"):
        travel = case["z0"] + case["depth"]
        force = force + case["tilt"] * frange * (tip - tip[0]) / travel
    if case.get("drift"):
        force = force + case["drift"] * frange * t / t[-1]
    if case.get("noise"):
        rng = np.random.RandomState(int(case.get("noise_seed", 0)))
        force = force + rng.normal(0.0, case["noise"] * frange, size=n)
    height = tip - force / case["k"]
    q = case.get("quant") or 0.0
    if q:
        height = np.round(height / q) * q
    lag = int(case.get("lag", 0))
    seg = np.zeros(n, dtype=np.uint8)
    seg[max(1, n_app - lag):] = 1
    if n_pause:
        seg[n_app + n_pause:] = 2     # approach 0 / pause 1 / retract 2
    return {"tip": tip, "force": force, "clean": clean, "height": height, "segment": seg,
            "time": t, "frange": frange}


def metadata(case, path=None):
    n = int(case["n_app"]) + int(case["n_ret"]) + int(case.get("n_pause") or 0)
    md = {"path": pathlib.Path(path or "/nonexistent/verif_synth.h5"),
          "enum": int(case.get("enum", 0)),
          "imaging mode": "force-distance",
          "point count": n}
    if case.get("k") is not None:
        md["spring constant"] = float(case["k"])
    md.update(case.get("meta", {}))
    return md


def build(case, cls=None, path=None):
    """Build a fresh in-memory nanite Indentation from the case record."""
    if cls is None:
        from nanite.indent import Indentation as cls
    a = arrays(case)
    data = {"force": a["force"].copy(), "height (measured)": a["height"].copy(),
            "segment": a["segment"].copy(), "time": a["time"].copy()}
    if case.get("with_tip"):
        data["tip position"] = a["tip"].copy()
    return cls(data=data, metadata=metadata(case, path))


def truth(case):
    return copy.deepcopy(case["params"])


def write_h5(cases, path, extra_meta_keys=()):
    """Write the curves as an afmformats HDF5 measurement file (loads back through
    IndentationGroup / QMap)."""
    import h5py
    path = pathlib.Path(path)
    keys = ["imaging mode", "spring constant", "point count"] + list(extra_meta_keys)
    with h5py.File(path, "w") as h5:
        for e, case in enumerate(cases):
            c = dict(case, enum=e)
            idnt = build(c, path=path)
            mk = [k for k in keys if k in idnt.metadata]
            idnt.export_data(h5, fmt="hdf5", metadata=mk)
    return path


# -------------------------------------------------------------------------
# Hypothesis strategies for curves

def st_params(model, st, wide=True):
    """model parameters strictly inside their bounds (contact point / baseline added by caller)"""
    logu = lambda lo, hi: st.floats(lo, hi).map(lambda e: 10.0 ** e)  # noqa: E731
    E = logu(1.5, 5.5) if wide else logu(2.5, 4.5)
    nu = st.floats(0.1, 0.499)
    R = st.floats(1e-6, 30e-6)
    if model in ("hertz_para", "sneddon_spher_approx"):
        return st.fixed_dictionaries({"E": E, "R": R, "nu": nu})
    if model == "hertz_cone":
        return st.fixed_dictionaries({"E": E, "alpha": st.floats(2.0, 60.0), "nu": nu})
    if model == "hertz_pyr3s":
        return st.fixed_dictionaries({"E": E, "alpha": st.floats(2.0, 29.0), "nu": nu})
    if model == "power_layer_clifford_2009":
        return st.fixed_dictionaries({"E_S": E, "E_L": logu(0.5, 2.9), "R": R,
                                      "nu_S": st.floats(0.1, 0.499), "nu_L": st.floats(0.1, 0.499),
                                      "t": logu(-8.0, -6.0)})
    raise KeyError(model)


def st_curve(st, models=None, noise=None, n_range=(60, 1200), with_tip=None, max_lag=0,
             tilt=False, drift=False, quant=False, sampling=("linear", "jitter", "quadratic"),
             min_baseline_frac=0.25, wide=True):
    """Strategy for complete curve records."""
    models = list(models or refmodels.MODELS)

    @st.composite
    def _curve(draw):
        model = draw(st.sampled_from(models))
        p = draw(st_params(model, st, wide=wide))
        depth = draw(st.floats(0.3e-6, 3e-6))
        if "R" in p:
            depth = min(depth, 0.95 * p["R"])
        z0 = depth * draw(st.floats(max(min_baseline_frac, 0.05) / (1 - min(min_baseline_frac, 0.9)), 4.0))
        cp = draw(st.sampled_from([0.0, 0.0, 1.0, -1.0, 0.37])) * draw(st.floats(0, 2e-6))
        case = base_case(model, params=dict(p, contact_point=cp, baseline=0.0),
                         n_app=draw(st.integers(*n_range)), n_ret=draw(st.integers(*n_range)),
                         z0=z0, depth=depth, k=draw(st.floats(0.01, 1.0)),
                         noise_seed=draw(st.integers(0, 2**20)),
                         sampling=draw(st.sampled_from(list(sampling))))
        fr = arrays(case)["frange"]
        case["params"]["baseline"] = draw(st.sampled_from([0.0, 1.0, -1.0, 0.3])) * draw(st.floats(0, 2.0)) * fr
        if noise is not None:
            case["noise"] = draw(noise)
        if tilt:
            case["tilt"] = draw(st.sampled_from([0.0, 1.0, -1.0])) * draw(st.floats(0.0, 0.3))
        if drift:
            case["drift"] = draw(st.sampled_from([0.0, 1.0, -1.0])) * draw(st.floats(0.0, 0.3))
        if max_lag:
            case["lag"] = draw(st.integers(0, max_lag))
        if quant:
            case["quant"] = draw(st.sampled_from([0.0, 0.0, 1.0])) * draw(st.floats(1e-11, 2e-9))
        if with_tip is None:
            case["with_tip"] = draw(st.booleans())
        else:
            case["with_tip"] = with_tip
        return case

    return _curve()
