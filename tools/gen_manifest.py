#!/usr/bin/env python3
"""Generate /verif/MANIFEST.json from the table below (and validate it when jsonschema is importable)."""
import json
import pathlib

VERIF = pathlib.Path(__file__).resolve().parent.parent
PY = "/venv/bin/python"

SETUP = ("/venv/bin/python -c 'import hypothesis' 2>/dev/null || "
         "/venv/bin/pip install --no-index --find-links /opt/veriftools/wheels hypothesis; "
         "/venv/bin/python -c 'import sys; sys.path.append(\"/verif/.deps\"); import mpmath' 2>/dev/null || "
         "/venv/bin/pip install --no-index --find-links /opt/veriftools/wheels --target /verif/.deps mpmath; "
         "/venv/bin/python -c 'import hypothesis, sys; sys.path.append(\"/verif/.deps\"); import mpmath; "
         "sys.path.insert(0, \"/repo/src\"); import nanite; print(\"setup ok\", hypothesis.__version__, nanite.__file__)'")

# id -> (technique, level category, level text, level note, design ref)
CHECKS = {}


def add(pid, technique, text, note, category="exploration"):
    CHECKS[pid] = dict(technique=technique, category=category, text=text, note=note)


add("C14", "exhaustive enumeration of all ordered step selections against an independent validity predicate; "
           "Hypothesis-generated lists with unknown identifiers",
    "Every one of the 1957 ordered selections of the 6 shipped steps is enumerated on every run (finite space, "
    "exhaustive: true): autosort output is checked to be a valid, idempotent permutation that leaves valid input "
    "unchanged, check_order is compared with an independent predicate and apply() acceptance with the "
    "required-steps rule on a small synthetic curve. Unknown identifiers are sampled (400 / 8000 lists).",
    "Trusts the steps_required/steps_optional declarations as the specification; exhaustive only for the steps "
    "registered in nanite.preproc.PREPROCESSORS at run time.")

NOT_YET = {}

ALL = [f"C{i:02d}" for i in range(1, 21)]


def main():
    checks = []
    for pid in ALL:
        if pid not in CHECKS:
            continue
        c = CHECKS[pid]
        checks.append({
            "property_id": pid,
            "quick_cmd": f"{PY} run_check.py {pid} --tier quick",
            "thorough_cmd": f"{PY} run_check.py {pid} --tier thorough",
            "evidence_file": f"/verif/evidence/{pid}.json",
            "replay_cmd_template": f"{PY} run_check.py {pid} --replay {{path}}",
            "engine": "pbt",
            "level_claimed": {"category": c["category"], "text": c["text"],
                              "design_ref": f"DESIGN.md section 4, {pid}"},
            "level_note": c["note"],
            "technique": c["technique"],
        })
    na = [{"property_id": pid,
           "reason": NOT_YET.get(pid, "check not built yet in this revision (property-based check is designed in "
                                      "DESIGN.md section 4 and will be claimed once it runs quietly on the unchanged tree)")}
          for pid in ALL if pid not in CHECKS]
    manifest = {
        "version": 1,
        "setup_cmd": SETUP,
        "hooks": {
            "guard": "NANITE_VERIF",
            "enable": "no source hooks: nanite is imported from /repo/src (working tree) and observed from outside "
                      "(lmfit.minimize, builtins.input, h5py write calls are wrapped by the harness)",
            "baseline_off_cmd": "cd /repo && /venv/bin/python -m pytest -ra -q -p no:cacheprovider --timeout=900 "
                                "--continue-on-collection-errors",
            "source_commits": [],
            "add_only": True,
        },
        "engines": [{"name": "pbt", "path": "/verif/run_check.py",
                     "serves_properties": sorted(CHECKS),
                     "kind_free_text": "Hypothesis 6.168 generated search (plus plain enumeration for finite spaces) "
                                       "with explicit oracles; sharded over processes; every failure is shrunk and "
                                       "written as a JSON replay file"}],
        "checks": checks,
        "not_applicable": na,
        "notes": "All checks: cwd=/verif, VERIF_SEED honoured, exit 0/1/2 = held / VIOLATION / harness error. "
                 "Genuine defects repaired in /repo by 'fix:' commits are listed in known_findings.json as fixed entries.",
    }
    if not na:
        manifest.pop("not_applicable")
    out = VERIF / "MANIFEST.json"
    out.write_text(json.dumps(manifest, indent=1) + "\n")
    try:
        import jsonschema
        schema = json.loads(pathlib.Path("/root/.vp/MANIFEST.schema.json").read_text())
        jsonschema.validate(manifest, schema)
        print("MANIFEST.json valid;", len(checks), "checks,", len(na), "not applicable")
    except ImportError:
        print("MANIFEST.json written (jsonschema not importable, not validated)")


if __name__ == "__main__":
    main()
