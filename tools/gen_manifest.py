#!/usr/bin/env python3
"""Generate /verif/MANIFEST.json from the table below (and validate it when jsonschema is importable)."""
import json
import pathlib

VERIF = pathlib.Path(__file__).resolve().parent.parent
PY = "/venv/bin/python"

SETUP = ("/venv/bin/python -c 'import hypothesis' 2>/dev/null || "
         "/venv/bin/pip install --no-index --find-links /opt/veriftools/wheels hypothesis; "
         "/venv/bin/python -c 'import sys; sys.path.append(\"/verif/.deps\"); import mpmath' 2>/dev/null || "
         "/venv/bin/pip install --no-index --find-links /opt/veriftools/wheels --target /verif/.deps mpmath; "
         "/venv/bin/python -c 'import hypothesis, sys; sys.path.append(\"/verif/.deps\"); import mpmath; "
         "sys.path.insert(0, \"/repo/src\"); import nanite; print(\"setup ok\", hypothesis.__version__, nanite.__file__)'")

# id -> (technique, level category, level text, level note, design ref)
CHECKS = {}


def add(pid, technique, text, note, category="exploration"):
    CHECKS[pid] = dict(technique=technique, category=category, text=text, note=note)


add("C14", "exhaustive enumeration of all ordered step selections against an independent validity predicate; "
           "Hypothesis-generated lists with unknown identifiers",
    "Every one of the 1957 ordered selections of the 6 shipped steps is enumerated on every run (finite space, "
    "exhaustive: true): autosort output is checked to be a valid, idempotent permutation that leaves valid input "
    "unchanged, check_order is compared with an independent predicate and apply() acceptance with the "
    "required-steps rule on a small synthetic curve. Unknown identifiers are sampled (400 / 8000 lists).",
    "Trusts the steps_required/steps_optional declarations as the specification; exhaustive only for the steps "
    "registered in nanite.preproc.PREPROCESSORS at run time.")

add("C02", "Hypothesis-generated parameters/abscissae vs independent 40-digit mpmath reference formulas; exact implicit "
           "Sneddon sphere solver for the truncation bound",
    "Generated search over the whole parameter box of the five shipped models (values at and near bounds, points at the "
    "contact point and its neighbouring floats, unsorted arrays): force equals the independently written published "
    "formula to a stated round-off bound, equals the baseline bit-exactly off contact, the sphere series stays within "
    "1e-4 of max force of the exact Sneddon solution for depths up to R, and each docstring states the constants "
    "the code uses; at the inclusive bound alpha = 90 of the cone (singular formula) only finiteness and the baseline "
    "off contact are checked; a further block passes single-precision (float32) indentation arrays (contact point 0) "
    "and bounds the deviation from the same reference by float32 round-off. 16 000 + 4 000 cases quick, 8e5 + 2e5 thorough.",
    "Trusts mpmath and the reference formulas in vlib/refmodels.py (written from the papers, Bilodeau constant 0.8887); "
    "sampling cannot prove absence of a deviation in an unexplored corner of the box.")

add("C04", "Hypothesis-generated curves and fit configurations; outputs recomputed from the reported numbers with "
           "independent reference formulas",
    "For generated synthetic and recorded curves x model x segment x range x weighting x correction factor x "
    "fixed/varied/bounded parameters: fit column == reference model at the reported parameters (NaN off segment), "
    "residual column == (data - fit) x linear contact-point weights, chi-square == sum of squared residuals over the "
    "fit range, fixed parameters unchanged, varied ones inside bounds, expression parameters satisfy their expression, "
    "unsuccessful fits leave NaN columns and success False.",
    "Tolerances 1e-9 of the force range (stated in the evidence); exploration only - holds on the generated cases.")

add("C05", "Hypothesis-generated intervals (on/between samples, inverted, one-sided, zero width) with set-equality oracle; "
           "harness-side lmfit.minimize recorder for multi-pass anchoring",
    "The reported fit-range mask is compared for exact set equality with segment & closed interval; for 'relative cp' "
    "the anchor is the contact point returned by the third optimisation (observed from outside; whether the anchor "
    "has converged is counted, not asserted); plateau search (also with more scan depths than data points): sample count, monotonic grid, optimal depth "
    "inside the scan, final mask from the optimal depth; xmin/xmax equal the extreme used abscissae.",
    "Observes lmfit.minimize calls by wrapping the function from the harness; exploration only.")

add("C11", "metamorphic relation fit(k) vs fit(1) on Hypothesis-generated synthetic curves with known truth; "
           "minimize recorder on every pass",
    "For the three power-law models, k in (0.05, 2], both segments, absolute / contact-point-relative / plateau-search "
    "ranges and non-zero initial contact points: contact point, baseline, fit column, xmin/xmax agree with the k=1 "
    "fit and E(k) k^p == E(1); the initial contact point handed to the optimiser is the caller's value times k in "
    "every pass; the caller's parameter object is unchanged. Also: contact point bounded / fixed / tied by an "
    "expression, k given in a second call on its own, the library's own initial guess (same position for every k), "
    "one IndentationFitter object re-used with another k.",
    "leastsq only; agreement tolerance 2e-6 of the natural scale (noise-proportional on noisy data); ill-conditioned "
    "noisy sub-problems are excluded by a stated rule and counted in the evidence; one known finding (F36: a k != 1 "
    "fit that stops far above the optimum on exact data, told apart by its chi-square) is printed as KNOWN-FINDING.")

add("C13", "metamorphic relations (orientation, translation, baseline additivity, modulus linearity, continuity, "
           "monotonicity, residual definition) on Hypothesis-generated inputs for every registered model incl. "
           "harness-defined user models",
    "All shipped models plus three harness-defined user models (one deliberately order sensitive, one with an "
    "expression parameter and ancillaries, one that depends on the first sample of the record and has a hidden "
    "underscore parameter) are evaluated through the registry's model/residual wrappers on generated "
    "monotonic abscissae of either orientation (2-60 points or long records around 2^14 samples, also entirely out "
    "of contact), and compared with the module's own model_func on the approach-ordered abscissa.",
    "The third-party model 'sneddon_spher' (not in /repo) is excluded; tolerances stated in the evidence.")

add("C01", "ground-truth oracle on Hypothesis-generated synthetic curves (independent reference formulas) fitted from "
           "inside a stated convergence basin",
    "All five shipped models, parameters strictly inside bounds with E over 4 decades, 60-1500 points per segment, "
    "linear/jittered/dithered (non-monotonic)/quadratic sampling, coarse 5-14 point segments, both segments, weighting 0..5e-6, leastsq and nelder, noise 0..3e-2: success "
    "is reported, contact point / baseline / modulus are recovered to optimizer precision (1e-7 leastsq, 2e-3 nelder, "
    "of the natural scales) and the fit column coincides with the clean data; with noise the errors stay below "
    "C sigma / sqrt(n) with calibrated C; one third of the fits enter through IndentationFitter(idnt, **keywords) "
    "on a curve that may carry a prior fit, the rest through Indentation.fit_model. 3 200 cases quick, 200 000 thorough.",
    "Tolerances and the basin are calibrated constants stated in the evidence; one known finding (F20: Nelder-Mead "
    "initial simplex vs. contact-point scale) is excluded by signature and reported as KNOWN-FINDING.")

add("C18", "single-fault mutants of generated model modules (enumerated + Hypothesis), register/deregister/load "
           "histories against a dict model with sys.path / dont_write_bytecode snapshots, file-vs-package "
           "differential, ancillary seeding",
    "Every single-fault mutant of three base model specs plus generated ones goes through register_model, "
    "NaniteFitModel and load_model_from_file (register on/off) and must raise a ModelError subclass leaving registry, "
    "sys.path and sys.dont_write_bytecode as they were; generated histories over 12 file kinds (valid, same stem in "
    "two directories, stdlib-named, missing, syntax error, ImportError ...) are compared with a dict model after "
    "every step; a file-loaded model equals the same source imported from a package bit for bit; ancillary values "
    "seed matching fit parameters unless NaN.",
    "Model modules are generated from a spec-to-source generator in the check; registry and import state are "
    "process-global and restored after every case.")

add("C12", "pairs of configurations differing in exactly one respect (Hypothesis-generated base + one modification, kinds "
           "scheduled round-robin); equal-hash pairs are decided by actually fitting both; child interpreters with "
           "different PYTHONHASHSEED",
    "For each of 19 kinds of single change (every fit-setting key, parameter value/min/max/vary/expr, one data sample "
    "by 1 ulp..1 %, preprocessing list/options, 9 representation variants, the two documented don't-cares) the hash "
    "must differ for relevant changes - when it does not, both configurations are fitted and any difference in the "
    "results is a violation - and must be equal for representation changes and don't-cares; equal objects hash "
    "equal; the hash of the same configuration is identical in child processes started with three other hash seeds.",
    "'Can influence the result' is decided operationally by fitting; cross-process determinism is sampled "
    "(16 configurations x 3 hash seeds quick).")

add("C20", "Hypothesis-generated measurement files/folders (synthetic HDF5 maps with scrambled scan order and missing "
           "pixels, recorded JPK files) and fit/rate histories against an independent count/pixel model",
    "Loading: curve count, class, (file, enum) order, unique enumerations, callback values within [0,1], "
    "non-decreasing and ending at 1, metadata override, refusal of curves lacking both spring constant and tip "
    "position (append / += / file load). Maps: after every fit / rate / refit / re-preprocess operation each pixel "
    "derived independently from the written grid metadata holds the curve's current modulus [Pa], contact point "
    "[nm] or rating, NaN elsewhere, exactly one DataMissingWarning per present curve lacking the value.",
    "afmformats (file readers, grid geometry) is the trusted substrate; the list-of-paths form of load_data is outside "
    "the property and not exercised.")

add("C03", "generated call histories (lists of operation records shrunk as one value) with a fresh-object differential, "
           "a no-stale-results invariant and an idempotence check after every step; lmfit.minimize call counter",
    "Histories of 3-14 (thorough: 30) operations over apply_preprocessing (valid/invalid), fit_model with changing "
    "keyword subsets (valid/invalid, preprocessing kwargs, fresh parameter objects), direct edits of all 13 "
    "fit-setting keys, single-attribute edits of the stored initial parameters, ratings, E(delta) scans, in-place "
    "edits of returned objects, argument-less refits and repeats. After every step: a fresh curve given only the "
    "stored preprocessing and settings reproduces hash, parameters, chi-square, range and all columns (bit-identical "
    "in all comparisons so far); no result key without a current fit; the requested setting is what is stored; a "
    "failed call fails again; an unchanged fit_model() runs zero optimisations and changes nothing. The orders named "
    "by the property (range edits under plateau search, gcf_k followed by another change, failure then retry) are "
    "generated deliberately and their frequencies reported.",
    "Fits aborted by lmfit's max_nfev are excluded (non-reproducible in lmfit 1.3.4); exploration only.")

add("C06", "generated histories of valid and invalid preprocessing requests, fits and requests issued through fit_model; "
           "bit-identity of all columns against a fresh curve after every request",
    "Curves in memory, file-backed (IndentationGroup) and recorded; requests from all valid step orders x option "
    "values and five kinds of invalid request; one options object held and edited by the caller; another curve's public attributes edited in place. After every valid request every column equals, bit for bit, the same "
    "request on a fresh curve and re-applying changes nothing; an invalid request is rejected, rejected again when "
    "repeated, never reported by the curve as applied; raw data are unchanged at the end.",
    "Column state directly after a rejected request is not specified by the property and not asserted.")

add("C10", "twin oracle per mutable argument: same object edited in place and passed again vs fresh equal-valued objects; "
           "deep snapshots of every argument before/after each call",
    "Fourteen scenarios (initial parameters passed / returned / handed out twice / kept across a skipped fit pass, curve attributes, returned details, abscissa of the model and residual functions, step list, option dict, range list, method keyword dict, "
    "preprocessing kwargs of fit_model, force array of the six contact-point estimators, rater feature-name list and "
    "training arrays) x generated curves and fit settings incl. correction factor != 1, multi-pass ranges and "
    "plateau search: arguments are never modified, stored state does not follow later in-place edits, and passing an "
    "edited object again gives exactly the state of a twin curve that received fresh copies.",
    "Scenarios are scheduled round-robin; cases with an lmfit-aborted optimisation are not judged.")

add("C15", "Hypothesis-generated training matrices written as text files vs a row-wise reference loader (row tags make "
           "pairing observable), all 8 flag combinations; class-balance identities for sample weights; export/load "
           "round trip of generated rating containers",
    "Matrices of 1-60 rows with NaN/+-inf patterns by cell, row, column and rating class, feature subsets in arbitrary "
    "order, four text formats: loaded samples/responses equal the reference loader's (imputation, row dropping, inf "
    "replacement, sorted columns, nothing else altered); weights non-negative, sum one, equal per class; exported "
    "containers (synthetic and recorded curves, several files, re-rated curves) load back as float('%.2e' % feature) "
    "with ratings in container order.",
    "Columns without any finite entry and empty selections are outside the statement's domain (counted, not asserted).")

add("C17", "range, order, purity, scale-invariance and retract-independence oracles on Hypothesis-generated fitted and "
           "unfitted curve states",
    "Fitted synthetic curves (5 models, 60-1500 approach points, noise, spikes, contact point forced near either end "
    "or outside the data) and recorded good/bad curves; every feature is NaN or finite, binary in {0,1}, fractions in "
    "[0,1], magnitudes >= 0 for positive peak force, names sorted, curve unchanged, bit-identical under 2^j scaling "
    "and within 1e-9 under arbitrary scaling of force/fit/residuals, independent of retract samples; all unfitted "
    "states give NaN for fit-dependent features without raising.",
    "Three recorded findings (F24 order with which_type='all', F25a/b infinite features) are excluded by signature "
    "and printed as KNOWN-FINDING.")

add("C16", "generated save/load histories against an ordered-dict model with full h5py dumps after every step; "
           "enumeration of every h5py write call of a save as injected failure point",
    "Histories of 2-8 saves (new curve, same curve again with other user fields, same curve with a different fit, "
    "several files and enumerations) and loads over synthetic and recorded curves with generated fit settings: loaded "
    "columns bit-identical, settings/parameters/user fields equal by value, features equal, hdf5_rated correct, "
    "untouched entries dump-identical, a re-save changes only user/version attributes, a different fit is refused "
    "and leaves the dump unchanged; curves handed out by an earlier load do not change when a second container with the same curve is loaded. Fault rule: every write call (create_dataset, create_group, attribute and dataset "
    "writes; up to 40 per save) of selected saves is failed in turn on a fresh copy of the container and all "
    "previously stored ratings must still load.",
    "A process kill leaving a torn HDF5 file is not simulated (the property speaks of failures at write calls); "
    "'different fit' must be refused when NaN pattern differs or the difference exceeds 1e-3 of the amplitude.",
    category="fault_enumeration")

add("C07", "defining relations of each step checked on before/after columns of Hypothesis-generated well-formed curves "
           "and all well-formed recorded curves (enumerated), each step x each option value",
    "Synthetic curves (5 models, noise, tilt, drift, lagged segment flag, quantised and noisy heights, 60-1200 samples) "
    "and the 20 well-formed recorded curves: tip position == height + force/k bit-exactly; offset corrections are "
    "one constant with zero baseline mean / zero tip at the public contact index (6 methods); slope correction is "
    "affine in the chosen abscissa inside the region (3 regions x 2 strategies), zero at the junction, leaves the "
    "rest untouched and removes the baseline trend; segment discovery yields one switch at the farthest point; "
    "smoothing makes every height-like column strictly monotonic per segment; point count and foreign columns "
    "unchanged; ret_details does not change data.",
    "'Well-formed' is fixed by the generator and stated in the evidence (baseline >= 10 % and >= 20 samples, "
    "segments >= 30 samples, <= 300 runs of equal heights); contact-point indices outside [0, n) are C08's subject "
    "and skipped here.")

add("C19", "set/get histories against a dict model across new Profile objects; legacy-vs-JSON differential; scripted "
           "input() driving setup_profile with generated answer scripts; batch fit of every produced profile compared "
           "row by row with an independent scripted fit",
    "600 histories, 296 legacy/JSON pairs, 400 setup scripts (each prompt answered from the domain it offers or "
    "skipped, 1-3 consecutive runs) and 16 batch fits over synthetic and recorded curves per quick run: "
    "read-after-write equality (type strict), legacy == JSON, get_fit_params == defaults overridden by exactly the "
    "stored entries, stored == answered (unit converted), every setup-produced profile is accepted by fit_perform, "
    "statistics.tsv rows equal path / enum / str(E) / round(rating, 1) of an independent fit, one plot page per curve.",
    "builtins.input is scripted and the profile path redirected from the harness; plot content beyond the page count "
    "is not inspected; the third-party model sneddon_spher is excluded from batch fits.")

add("C08", "metamorphic scale/shift relations, validity and accuracy oracles on Hypothesis-generated force arrays with "
           "known contact index, all well-formed recorded curves, and generated degenerate arrays",
    "All six estimators through compute_poc and Indentation.estimate_contact_point_index: integral index inside the "
    "array, input untouched, same index with ret_details, exactly unchanged under x2^j, within one sample under "
    "arbitrary positive factors (incl. 1e9) and constant shifts, within a stated fraction phi of the approach length "
    "of the true contact on clean model curves (phi calibrated per estimator), and no exception but the documented "
    "centre fallback for constant, decreasing, no-baseline (convex and concave) and 0-12-sample arrays in N / nN / pN "
    "units, as floats or integer counts; non-model shapes (tanh, 1-exp, sqrt, linear, power rise after a baseline) "
    "must give a valid index as well.",
    "phi values are calibrated constants (1.5x the worst clean-curve error measured on 45 000 curves), stated in the "
    "evidence, with a tighter early-side bound for the four estimators biased towards the indentation; an index at or "
    "beyond the force maximum is counted, not asserted; one known finding (F33: the three fitting estimators are not "
    "stable under arbitrary factors / shifts) is printed as KNOWN-FINDING, power-of-two factors stay asserted.")

add("C09", "generated histories reaching curve states and rating them with changing cache keys; differential against an "
           "uncached standalone rater, the statement's case table, a fresh equal curve and child interpreters with "
           "other hash seeds",
    "States fresh / preprocessed / fitted / edited after fit / unsuccessful / refitted / failed call x regressor in 7 "
    "names + 'none' x training set in {shipped, generated directory, in-memory tuple} x feature subsets x LDA flag, "
    "interleaved with refits, edits and new preprocessing: rate_quality never raises, returns -1 / 0 per the case "
    "table, stays in [0, 10] for the averaging tree regressors, equals get_rater(...).rate(datasets=curve) after "
    "every change of hash, regressor, training set, names or LDA flag (also through rate(samples=...)), does not depend on the order of the names or on an earlier get_rater call with own regressor keywords, is repeatable, equal on a fresh equal curve "
    "and in child processes with PYTHONHASHSEED 1 / 98765, and does not change the curve.",
    "Each rating trains a regressor (0.02-0.6 s), so quick explores 160 histories; equality with the standalone "
    "rater is asserted for fitted states only (all not-fitted states share cache key 'none').")

NOT_YET = {}

ALL = [f"C{i:02d}" for i in range(1, 21)]


def main():
    checks = []
    for pid in ALL:
        if pid not in CHECKS:
            continue
        c = CHECKS[pid]
        checks.append({
            "property_id": pid,
            "quick_cmd": f"{PY} run_check.py {pid} --tier quick",
            "thorough_cmd": f"{PY} run_check.py {pid} --tier thorough",
            "evidence_file": f"/verif/evidence/{pid}.json",
            "replay_cmd_template": f"{PY} run_check.py {pid} --replay {{path}}",
            "engine": "pbt",
            "level_claimed": {"category": c["category"], "text": c["text"],
                              "design_ref": f"DESIGN.md section 4, {pid}"},
            "level_note": c["note"],
            "technique": c["technique"],
        })
    na = [{"property_id": pid,
           "reason": NOT_YET.get(pid, "check not built yet in this revision (property-based check is designed in "
                                      "DESIGN.md section 4 and will be claimed once it runs quietly on the unchanged tree)")}
          for pid in ALL if pid not in CHECKS]
    manifest = {
        "version": 1,
        "setup_cmd": SETUP,
        "hooks": {
            "guard": "NANITE_VERIF",
            "enable": "no source hooks: nanite is imported from /repo/src (working tree) and observed from outside "
                      "(lmfit.minimize, builtins.input, h5py write calls are wrapped by the harness)",
            "baseline_off_cmd": "cd /repo && /venv/bin/python -m pytest -ra -q -p no:cacheprovider --timeout=900 "
                                "--continue-on-collection-errors",
            "source_commits": [],
            "add_only": True,
        },
        "engines": [{"name": "pbt", "path": "/verif/run_check.py",
                     "serves_properties": sorted(CHECKS),
                     "kind_free_text": "Hypothesis 6.168 generated search (plus plain enumeration for finite spaces) "
                                       "with explicit oracles; sharded over processes; every failure is shrunk and "
                                       "written as a JSON replay file"}],
        "checks": checks,
        "not_applicable": na,
        "notes": "All checks: cwd=/verif, VERIF_SEED honoured, exit 0/1/2 = held / VIOLATION / harness error. "
                 "Genuine defects repaired in /repo by 'fix:' commits are listed in known_findings.json as fixed entries.",
    }
    if not na:
        manifest.pop("not_applicable")
    out = VERIF / "MANIFEST.json"
    out.write_text(json.dumps(manifest, indent=1) + "\n")
    try:
        import jsonschema
        schema = json.loads(pathlib.Path("/root/.vp/MANIFEST.schema.json").read_text())
        jsonschema.validate(manifest, schema)
        print("MANIFEST.json valid;", len(checks), "checks,", len(na), "not applicable")
    except ImportError:
        print("MANIFEST.json written (jsonschema not importable, not validated)")


if __name__ == "__main__":
    main()
