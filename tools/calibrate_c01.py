#!/venv/bin/python
"""Calibration of C01 tolerances: prints the largest normalised errors seen (per minimizer, noisy or not)."""
import os, sys, multiprocessing, collections, json
os.environ.setdefault("OMP_NUM_THREADS", "1")
sys.path.insert(0, "/verif")
from vlib import runner
import numpy as np

def work(shard):
    runner.import_tree()
    import checks.c01_recovery as c
    ctx = runner.Ctx("C01", "quick", int(sys.argv[1]) if len(sys.argv) > 1 else 1, shard, 16, "/tmp")
    rows = []
    def fn(case, ctx):
        curve, cfg = case["curve"], case["cfg"]
        try:
            m = c.measure(case)
        except BaseException as e:
            rows.append(("EXC", repr(e)[:80])); return
        if not m["success"]:
            rows.append(("NOSUCCESS",)); return
        if m["n_contact"] < 8: return
        if cfg["method"] == "nelder" and abs(curve["params"]["contact_point"] + cfg["cp_off"] * curve["depth"]) < 1e-3 * curve["depth"]: return
        s = c.sensitivity(curve)
        sig = curve["noise"] / np.sqrt(m["n_contact"])
        w = (cfg["weight_cp"] or 0) / curve["depth"]
        rows.append((cfg["method"], curve["noise"], m["cp"], m["bl"], m["E"] * s, m["fit"], sig, w, s, curve["model"], cfg["segment"]))
    ctx.hypothesis(c.st_case(), fn, int(sys.argv[2]) if len(sys.argv) > 2 else 500)
    return rows

if __name__ == "__main__":
    with multiprocessing.get_context("fork").Pool(16) as pool:
        rows = sum(pool.map(work, range(16)), [])
    print("rows", len(rows), collections.Counter(r[0] for r in rows))
    rows = [r for r in rows if r[0] in ("leastsq", "nelder")]
    for meth in ("leastsq", "nelder"):
        nf = [r for r in rows if r[0] == meth and r[1] == 0]
        for i, key in enumerate(["cp", "bl", "E*s", "fit"]):
            v = np.array([r[2 + i] for r in nf]); j = int(np.argmax(v))
            print(meth, "noise-free", key, "max %.3e p99 %.3e" % (v.max(), np.percentile(v, 99)), nf[j][7:], )
        ny = [r for r in rows if r[0] == meth and r[1] > 0]
        for wlo, whi in ((0, 1e-9), (1e-9, 0.25), (0.25, 1), (1, 100)):
            sub = [r for r in ny if wlo <= r[7] < whi]
            if not sub: continue
            for i, key in enumerate(["cp", "bl", "E*s", "fit"]):
                v = np.array([r[2 + i] / r[6] for r in sub]); j = int(np.argmax(v))
                print(meth, "noisy w/depth in [%g,%g)" % (wlo, whi), key, "max %.1f p99 %.1f n=%d" % (v.max(), np.percentile(v, 99), len(sub)), sub[j][7:])
