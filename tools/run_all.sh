#!/bin/bash
# run every registered check (quick tier by default) and print one line each
tier=${1:-quick}
cd /verif
for p in $(seq -w 1 20); do
  id="C$p"
  start=$(date +%s)
  out=$(/venv/bin/python run_check.py $id --tier $tier 2>&1); rc=$?
  echo "$id rc=$rc $(( $(date +%s) - start ))s $(echo "$out" | grep -E "^C[0-9]+ (quick|thorough)" | tail -1) $(echo "$out" | grep -c '^VIOLATION') viol $(echo "$out" | grep -c '^KNOWN-FINDING') known"
done
