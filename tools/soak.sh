#!/bin/bash
# run every quick check at several seeds on the unchanged tree; print only non-zero exits and a summary
cd /verif
bad=0
for seed in "$@"; do
  for p in $(seq -w 1 20); do
    out=$(VERIF_REPO=/repo VERIF_SEED=$seed /venv/bin/python run_check.py C$p --tier quick 2>&1); rc=$?
    if [ $rc -ne 0 ]; then bad=$((bad+1)); echo "seed=$seed C$p rc=$rc"; echo "$out" | grep -E "violation|VIOLATION|HARNESS|Error" | head -5; fi
  done
  echo "seed $seed done"
done
echo "soak finished: $bad non-zero exits"
