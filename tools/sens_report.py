#!/venv/bin/python
"""Print the sensitivity tables of DESIGN.md section 7 from tools/mutation_results.json,
tools/seeded_results.json, seeded/*/meta.json and seeded/first_pass_results.txt."""
import collections
import json
import pathlib

VERIF = pathlib.Path(__file__).resolve().parent.parent


#: why a planted mutation is not reported by the check it was aimed at
REASONS = {
    "M-C02-b": "equivalent mutant: at a depth of exactly 0 the cone term is 0, `>=` instead of `>` changes no output",
    "M-C02-g": "equivalent mutant: the same for the layered model (both versions evaluated side by side)",
    "M-C01-c": "adds 0.5 to the contact-point weights: another weighting, under which the optimum on exact data and "
               "C01's noise bound still hold; C13 (residual-definition) and C04 (residual-column) report it",
    "M-C12-f": "equivalent for the property: preprocessing options enter the hash through the preprocessed data; "
               "options that leave the data unchanged cannot influence the result",
    "M-C06-b": "equivalent mutant: the column access returns a copy, the in-place subtraction acts on that copy",
    "M-C03-c": "equivalent mutant: the removed assignment is overwritten before it is read",
    "M-C03-d": "equivalent mutant: assigning the preprocessing keys triggers the same reset through "
               "FitProperties.__setitem__",
    "M-C08-e": "changes a tuning constant of one estimator (gradient threshold 1 % -> 20 %): still a valid index "
               "within the calibrated accuracy fraction; the property does not fix the constant",
}


def main():
    pm = json.loads((VERIF / "tools" / "mutation_results.json").read_text())
    by = collections.defaultdict(lambda: collections.Counter())
    missed = []
    for r in pm:
        by[r["property"]][r["verdict"]] += 1
        if r["verdict"] != "DETECTED":
            missed.append((r["mutation"], r["property"], r["verdict"]))
    print("### Planted mutations (tools/mutations*.json)\n")
    print("| check | planted | detected | not detected |")
    print("|---|---|---|---|")
    for p in sorted(by):
        c = by[p]
        nd = [m for m, q, v in missed if q == p]
        print(f"| {p} | {sum(c.values())} | {c['DETECTED']} | {', '.join(nd) or '-'} |")
    print(f"\ntotal {len(pm)}, detected {sum(1 for r in pm if r['verdict'] == 'DETECTED')}\n")
    if missed:
        print("Not detected by the check they were aimed at:\n")
        for m, q, v in missed:
            print(f"* {m} ({q}, {v}): {REASONS.get(m, 'not analysed')}")
        print()

    first = {}
    fp = VERIF / "seeded" / "first_pass_results.txt"
    if fp.exists():
        for line in fp.read_text().splitlines():
            sid, chk, verdict = line.split()[0], line.split()[1].strip("[]"), line.split()[2]
            if chk == sid.split("-")[0]:
                # keep the worst verdict recorded for the own check
                if first.get(sid) not in ("MISSED", "BROKEN"):
                    first[sid] = verdict
    final = {}
    sp = VERIF / "tools" / "seeded_results.json"
    if sp.exists():
        for r in json.loads(sp.read_text()):
            final[(r["mutation"], r["property"])] = (r["verdict"], r["first"])
    print("### Independently seeded changes (seeded/<id>/)\n")
    print("| id | what was changed / what it needs | first pass | now | sub-check that reports it |")
    print("|---|---|---|---|---|")
    for d in sorted((VERIF / "seeded").glob("*/meta.json")):
        m = json.loads(d.read_text())
        sid = d.parent.name
        prop = m["property"]
        v, firstline = final.get((sid, prop), ("?", ""))
        sub = firstline.split("violation ")[-1].split(" ")[0] if "violation" in firstline else ""
        summ = (m.get("summary") or "").replace("|", "/").replace("\n", " ")
        needs = (m.get("needs") or "").replace("|", "/").replace("\n", " ")
        print(f"| {sid} | {summ[:170]} NEEDS: {needs[:150]} | {first.get(sid, '?')} | {v} | {sub} |")
    n = len(list((VERIF / "seeded").glob("*/meta.json")))
    nf = sum(1 for s, v in first.items() if v == "DETECTED")
    nn = sum(1 for (s, p), (v, _) in final.items() if v == "DETECTED" and p == s.split("-")[0])
    print(f"\n{n} confirmed changes; detected by the property's own check on the first pass: {nf}; now: {nn}\n")


if __name__ == "__main__":
    main()
