#!/venv/bin/python
"""Merge result files of partial `tools/mutants.py --seeded --only=... --out=FILE` runs into
tools/seeded_results.json (later files win).  Usage: tools/merge_seeded.py FILE [FILE ...]"""
import json
import pathlib
import sys

VERIF = pathlib.Path(__file__).resolve().parent.parent


def main():
    dst = VERIF / "tools" / "seeded_results.json"
    cur = {(r["mutation"], r["property"]): r for r in json.loads(dst.read_text())} if dst.exists() else {}
    for f in sys.argv[1:]:
        for r in json.loads(pathlib.Path(f).read_text()):
            cur[(r["mutation"], r["property"])] = r
    rows = [cur[k] for k in sorted(cur)]
    dst.write_text(json.dumps(rows, indent=1))
    own = [r for r in rows if r["property"] == r["mutation"].split("-")[0]]
    print(len(rows), "rows;", sum(1 for r in own if r["verdict"] == "DETECTED"), "of", len(own), "detected by their own check")


if __name__ == "__main__":
    main()
