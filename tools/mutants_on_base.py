#!/venv/bin/python
"""Sensitivity run on top of a patched base tree (tools/mutants.py always starts from /repo HEAD, so an open
defect of HEAD is what every mutant run reports).  Usage:

    tools/mutants_on_base.py C17 /tmp/wt_patched [MUTATION-ID ...]

Copies <base>/src to a temp dir (tests symlinked to /repo/tests), applies each mutation of
tools/mutations_<prop>.json and runs the quick tier with VERIF_REPO pointing at the copy.
"""
import json
import os
import pathlib
import shutil
import subprocess
import sys
import tempfile

VERIF = pathlib.Path(__file__).resolve().parent.parent
prop, base, only = sys.argv[1].upper(), pathlib.Path(sys.argv[2]), sys.argv[3:]
muts = json.loads((VERIF / "tools" / f"mutations_{prop.lower()}.json").read_text())
for m in muts:
    if only and m["id"] not in only:
        continue
    d = pathlib.Path(tempfile.mkdtemp(prefix="mut_base_"))
    try:
        shutil.copytree(base / "src", d / "src")
        os.symlink("/repo/tests", d / "tests")
        f = d / m["file"]
        s = f.read_text()
        if s.count(m["old"]) < 1:
            print(f"{m['id']}: OLD TEXT NOT FOUND in {m['file']}")
            continue
        f.write_text(s.replace(m["old"], m["new"], 1))
        env = dict(os.environ, VERIF_REPO=str(d), VERIF_SEED="1")
        r = subprocess.run(["/venv/bin/python", str(VERIF / "run_check.py"), prop, "--tier", "quick"],
                           cwd=str(VERIF), env=env, capture_output=True, text=True)
        viol = [line for line in r.stdout.splitlines() if line.startswith("  violation")]
        verdict = {0: "MISSED", 1: "DETECTED", 2: "BROKEN"}.get(r.returncode, f"rc={r.returncode}")
        print(f"{m['id']} [{prop}] {verdict} {viol[0][:200] if viol else ''}", flush=True)
        if r.returncode == 2:
            print(r.stderr[-1500:])
    finally:
        shutil.rmtree(d, ignore_errors=True)
