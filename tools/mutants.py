#!/venv/bin/python
"""Sensitivity harness: apply planted mutations to a scratch worktree of /repo and
run the quick tier of the named check against it (VERIF_REPO points the runner at
the scratch tree).  Usage:

    tools/mutants.py [ID ...]          run all mutations of tools/mutations.json for these ids
    tools/mutants.py --seeded [ID ...] same for /verif/seeded/*/patch.diff

Prints one line per mutation: DETECTED / MISSED / BROKEN(exit 2).  Nothing is
written to /repo; the scratch worktree is removed afterwards.
"""
import json
import os
import pathlib
import shutil
import subprocess
import sys
import tempfile

VERIF = pathlib.Path(__file__).resolve().parent.parent


def sh(*a, **k):
    return subprocess.run(a, capture_output=True, text=True, **k)


def make_tree():
    d = tempfile.mkdtemp(prefix="nanite_mut_")
    shutil.rmtree(d)
    r = sh("git", "-C", "/repo", "worktree", "add", "--detach", d, "HEAD")
    if r.returncode:
        raise SystemExit(r.stderr)
    # generated, git-ignored file needed for import
    shutil.copy("/repo/src/nanite/_version.py", pathlib.Path(d) / "src/nanite/_version.py")
    return pathlib.Path(d)


def drop_tree(d):
    sh("git", "-C", "/repo", "worktree", "remove", "--force", str(d))
    shutil.rmtree(d, ignore_errors=True)
    sh("git", "-C", "/repo", "worktree", "prune")


def run_check(pid, tree, tier="quick", seed="1"):
    env = dict(os.environ, VERIF_REPO=str(tree), VERIF_SEED=seed)
    r = sh("/venv/bin/python", str(VERIF / "run_check.py"), pid, "--tier", tier, cwd=str(VERIF), env=env)
    viol = [line for line in r.stdout.splitlines() if line.startswith("  violation")]
    return r.returncode, viol, r.stdout[-1500:] + r.stderr[-1500:]


def main():
    args = sys.argv[1:]
    seeded = "--seeded" in args
    # --only=<mutation ids, comma separated>   --check=<property ids>: run these checks against those mutations
    only = [a.split("=", 1)[1].split(",") for a in args if a.startswith("--only=")]
    only = only[0] if only else None
    force = [a.split("=", 1)[1].upper().split(",") for a in args if a.startswith("--check=")]
    force = force[0] if force else None
    seedarg = [a.split("=", 1)[1] for a in args if a.startswith("--seed=")]
    seedarg = seedarg[0] if seedarg else "1"
    outarg = [a.split("=", 1)[1] for a in args if a.startswith("--out=")]
    ids = [a.upper() for a in args if not a.startswith("--")]
    out = []
    if seeded:
        muts = []
        for meta in sorted((VERIF / "seeded").glob("*/meta.json")):
            m = json.loads(meta.read_text())
            muts.append({"id": meta.parent.name, "props": m["checks"] if "checks" in m else [m["property"]],
                         "patch": str(meta.parent / "patch.diff")})
    else:
        muts = []
        for f in sorted((VERIF / "tools").glob("mutations*.json")):
            muts += json.loads(f.read_text())
    for m in muts:
        if only is not None and m["id"] not in only:
            continue
        props = force if force else [p for p in m["props"] if not ids or p in ids]
        if not props:
            continue
        tree = make_tree()
        try:
            if "patch" in m:
                r = sh("git", "-C", str(tree), "apply", m["patch"])
                if r.returncode:
                    print(f"{m['id']}: PATCH DOES NOT APPLY {r.stderr[:200]}")
                    continue
            else:
                f = tree / m["file"]
                s = f.read_text()
                if s.count(m["old"]) < 1:
                    print(f"{m['id']}: OLD TEXT NOT FOUND in {m['file']}")
                    continue
                f.write_text(s.replace(m["old"], m["new"], 1))
            for pid in props:
                rc, viol, tail = run_check(pid, tree, seed=seedarg)
                verdict = {0: "MISSED", 1: "DETECTED", 2: "BROKEN"}.get(rc, f"rc={rc}")
                first = viol[0][:160] if viol else ""
                print(f"{m['id']} [{pid}] {verdict} {first}", flush=True)
                if rc == 2:
                    print(tail)
                out.append({"mutation": m["id"], "property": pid, "verdict": verdict, "first": first})
        finally:
            drop_tree(tree)
    if outarg:
        pathlib.Path(outarg[0]).write_text(json.dumps(out, indent=1))
    if not ids and not only and not force and not outarg:
        (VERIF / "tools" / ("seeded_results.json" if seeded else "mutation_results.json")).write_text(
            json.dumps(out, indent=1))


if __name__ == "__main__":
    main()
