#!/venv/bin/python
"""Calibration of the C08 accuracy fractions phi: largest |idx - true| / n_app per estimator (and per model)
over clean synthetic curves drawn from the check's own strategy.

    VERIF_REPO=<tree> tools/calibrate_c08.py [seed] [curves] [processes]
"""
import collections
import json
import multiprocessing
import os
import sys

os.environ.setdefault("OMP_NUM_THREADS", "1")
sys.path.insert(0, "/verif")
from vlib import runner  # noqa: E402

SEED = int(sys.argv[1]) if len(sys.argv) > 1 else 1
N = int(sys.argv[2]) if len(sys.argv) > 2 else 20000
NP = int(sys.argv[3]) if len(sys.argv) > 3 else 16


def work(shard):
    runner.import_tree()
    import checks.c08_poc_estimators as c
    ctx = runner.Ctx("C08", "quick", SEED, shard, NP, "/tmp")
    rows = []
    seen = set()

    def fn(case, ctx):
        fp = runner.fingerprint(case)
        if fp in seen:
            return
        seen.add(fp)
        curve = case["curve"]
        try:
            res = c.measure_clean(curve)
        except BaseException as e:  # noqa
            rows.append(("EXC", repr(e)[:100], json.dumps(case)))
            return
        for m, (idx, true_idx) in res.items():
            rows.append((m, curve["model"], curve["noise"], curve["sampling"],
                         (int(idx) - true_idx) / curve["n_app"], true_idx / curve["n_app"], curve["n_app"],
                         json.dumps(case)))
    ctx.hypothesis(c.st_clean(), fn, N // NP)
    return rows


if __name__ == "__main__":
    import numpy as np
    with multiprocessing.get_context("fork").Pool(NP) as pool:
        rows = sum(pool.map(work, range(NP)), [])
    exc = [r for r in rows if r[0] == "EXC"]
    rows = [r for r in rows if r[0] != "EXC"]
    print("distinct curves", len(rows) // 6, "exceptions", len(exc), exc[:2])
    if os.environ.get("C08_ROWS"):
        json.dump([r[:7] for r in rows], open(os.environ["C08_ROWS"], "w"))
    for m in sorted(set(r[0] for r in rows)):
        sub = [r for r in rows if r[0] == m]
        e = np.array([abs(r[4]) for r in sub])
        j = int(np.argmax(e))
        print(f"{m}: max {e.max():.4f} p99.9 {np.percentile(e, 99.9):.4f} p99 {np.percentile(e, 99):.4f} "
              f"median {np.median(e):.4f}  worst: signed {sub[j][4]:.3f} model {sub[j][1]} noise {sub[j][2]} "
              f"sampling {sub[j][3]} baseline fraction {sub[j][5]:.2f} n_app {sub[j][6]}")
        print("     worst case:", sub[j][7])
        per = collections.defaultdict(float)
        for r in sub:
            key = (r[1], "noisy" if r[2] else "noise_free")
            per[key] = max(per[key], abs(r[4]))
        print("     per model:", {f"{k[0]}/{k[1]}": round(v, 3) for k, v in sorted(per.items())})
        for label, sel in (("noise-free", lambda r: not r[2]), ("low noise", lambda r: r[2]),
                           ("n_app < 200", lambda r: r[6] < 200), ("n_app >= 200", lambda r: r[6] >= 200)):
            v = np.array([r[4] for r in sub if sel(r)])
            print(f"     {label}: n {v.size} signed min {v.min():.4f} max {v.max():.4f}")
