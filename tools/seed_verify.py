#!/venv/bin/python
"""Confirm an independently written breaking change and file it under /verif/seeded/<id>/.

    tools/seed_verify.py <workdir> <PROPERTY> <A|B ...>

For each letter: <workdir>/out/patch_<L>.diff must apply to a fresh worktree of /repo HEAD,
the repository's full test suite must pass with it, <workdir>/out/demo_<L>.py must exit 1 with
the change and 0 without it.  Confirmed changes are copied to /verif/seeded/<PROPERTY>-<L>/
(patch.diff, demo.py, meta.json).  Nothing is changed in /repo; the scratch worktree is removed.
"""
import json
import os
import pathlib
import shutil
import subprocess
import sys
import tempfile

VERIF = pathlib.Path(__file__).resolve().parent.parent


def sh(*a, **k):
    return subprocess.run(a, capture_output=True, text=True, **k)


def tree():
    d = tempfile.mkdtemp(prefix="nanite_seed_")
    shutil.rmtree(d)
    r = sh("git", "-C", "/repo", "worktree", "add", "--detach", d, "HEAD")
    assert r.returncode == 0, r.stderr
    shutil.copy("/repo/src/nanite/_version.py", pathlib.Path(d) / "src/nanite/_version.py")
    return pathlib.Path(d)


def drop(d):
    sh("git", "-C", "/repo", "worktree", "remove", "--force", str(d))
    shutil.rmtree(d, ignore_errors=True)
    sh("git", "-C", "/repo", "worktree", "prune")


def main():
    work, prop = pathlib.Path(sys.argv[1]), sys.argv[2]
    letters = sys.argv[3:] or ["A", "B"]
    notes = {}
    nf = work / "out" / "notes.json"
    if nf.exists():
        try:
            notes = json.loads(nf.read_text())
        except Exception:
            notes = {}
    head = sh("git", "-C", "/repo", "rev-parse", "--short", "HEAD").stdout.strip()
    for L in letters:
        patch = work / "out" / f"patch_{L}.diff"
        demo = work / "out" / f"demo_{L}.py"
        if not patch.exists() or not demo.exists():
            print(f"{prop}-{L}: missing patch or demo")
            continue
        t = tree()
        try:
            env = dict(os.environ, PYTHONPATH=str(t / "src"), MPLBACKEND="Agg")
            # the demos may refer to their original worktree path for data files: run them from a copy
            # demos locate tests/data relative to their own file: run a copy placed in the tree root
            local = t / f"demo_{L}.py"
            shutil.copy(demo, local)
            demo_run = local
            d0 = sh("/venv/bin/python", str(demo_run), cwd=str(t), env=env, timeout=1800)
            r = sh("git", "-C", str(t), "apply", str(patch))
            if r.returncode:
                print(f"{prop}-{L}: patch does not apply to HEAD {head}: {r.stderr[:300]}")
                continue
            d1 = sh("/venv/bin/python", str(demo_run), cwd=str(t), env=env, timeout=1800)
            tests = sh("/venv/bin/python", "-m", "pytest", "-q", "-p", "no:cacheprovider", "-x", cwd=str(t), env=env,
                       timeout=3600)
            tail = tests.stdout.strip().splitlines()[-1] if tests.stdout.strip() else tests.stderr[-200:]
            where = sh("/venv/bin/python", "-c", "import nanite; print(nanite.__file__)", env=env, cwd=str(t)).stdout.strip()
            ok = d0.returncode == 0 and d1.returncode == 1 and tests.returncode == 0 and where.startswith(str(t))
            print(f"{prop}-{L}: demo without change rc={d0.returncode}, with change rc={d1.returncode}, tests: {tail} "
                  f"-> {'CONFIRMED' if ok else 'NOT CONFIRMED'}")
            if not ok:
                print("   demo(with) output:", (d1.stdout + d1.stderr)[-400:].replace("\n", " | "))
                continue
            out = VERIF / "seeded" / f"{prop}-{L}"
            out.mkdir(parents=True, exist_ok=True)
            shutil.copy(patch, out / "patch.diff")
            shutil.copy(demo, out / "demo.py")
            n = notes.get(L, notes.get(L.lower(), {})) if isinstance(notes, dict) else {}
            meta = {"property": prop, "written_by": "independent sub-agent given only the property record and a scratch "
                                                   "worktree (nothing from /verif)",
                    "summary": n.get("summary", ""), "breaks": n.get("breaks", ""), "needs": n.get("needs", ""),
                    "base_commit": head,
                    "confirmed": {"patch_applies_to": head, "existing_tests_with_change": tail,
                                  "demo_exit_without_change": d0.returncode, "demo_exit_with_change": d1.returncode,
                                  "demo_output_with_change": (d1.stdout + d1.stderr)[-600:],
                                  "commands": ["git worktree add --detach <tmp> HEAD; git apply patch.diff",
                                               "PYTHONPATH=<tmp>/src /venv/bin/python -m pytest -q -p no:cacheprovider -x",
                                               "PYTHONPATH=<tmp>/src /venv/bin/python demo.py"]},
                    "checks": [prop]}
            (out / "meta.json").write_text(json.dumps(meta, indent=1) + "\n")
        finally:
            drop(t)


if __name__ == "__main__":
    main()
