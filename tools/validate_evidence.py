#!/usr/bin/env python3
import json, pathlib, sys
import jsonschema
schema = json.loads(pathlib.Path("/root/.vp/EVIDENCE.schema.json").read_text())
bad = 0
for f in sorted(pathlib.Path("/verif/evidence").glob("*.json")):
    try:
        jsonschema.validate(json.loads(f.read_text()), schema); print("ok", f.name)
    except Exception as e:
        bad += 1; print("INVALID", f.name, str(e)[:300])
sys.exit(bad)
