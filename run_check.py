#!/venv/bin/python
"""Entry point:  run_check.py <ID> --tier quick|thorough [--replay FILE]

exit 0: property held on everything explored (KNOWN-FINDING lines possible)
exit 1: at least one `VIOLATION property=<ID> replay=<path>` line was printed
exit 2: harness error (never a verdict about the code under test)
"""
import os
import sys

# a run is a pure function of (tree, VERIF_SEED, tier): pin hash seed and BLAS threads
_want = {"PYTHONHASHSEED": "0", "OMP_NUM_THREADS": "1", "OPENBLAS_NUM_THREADS": "1",
         "MKL_NUM_THREADS": "1", "MPLBACKEND": "Agg", "PYTHONDONTWRITEBYTECODE": "1"}
if any(os.environ.get(k) != v for k, v in _want.items()):
    os.environ.update(_want)
    os.execv(sys.executable, [sys.executable] + sys.argv)

import argparse  # noqa: E402
import pathlib  # noqa: E402

sys.path.insert(0, str(pathlib.Path(__file__).resolve().parent))
from vlib import runner  # noqa: E402


def main():
    ap = argparse.ArgumentParser()
    ap.add_argument("prop")
    ap.add_argument("--tier", default=os.environ.get("VERIF_TIER", "quick"),
                    choices=["quick", "thorough"])
    ap.add_argument("--replay", default=None)
    args = ap.parse_args()
    sys.exit(runner.main(args.prop.upper(), args.tier, args.replay))


if __name__ == "__main__":
    main()
