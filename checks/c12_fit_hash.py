"""C12 — the fit hash identifies data plus effective settings, deterministically.

Pairs of configurations that differ in exactly one respect: a relevant change must change
the hash (if the hashes are equal both fits are run and must give identical results),
representation changes and documented don't-cares must not; the same configuration is
hashed in child interpreters with different PYTHONHASHSEED.
"""
import copy
import json
import os
import subprocess
import sys

import numpy as np
from hypothesis import strategies as st

from vlib import fitgen, refmodels, synth
from vlib.runner import REPO, VERIF

PROPERTY = "C12"
SHARDS = {"quick": 8, "thorough": 16}
RULE = ("Hypothesis draws a base configuration (synthetic curve with innate tip column, optional preprocessing, "
        "all fit-setting keys, initial parameters) and ONE modification of a stated kind: setting value, parameter "
        "attribute (value/min/max/vary/expr), one data sample perturbed by 1 ulp..1 %, preprocessing list/options, "
        "representation variant (tuple/list, int/float/bool, dict insertion order, 'approach'/0), documented "
        "don't-care. non-trivial = the pair differs in exactly one effective value or one representation; "
        "distinct = distinct (base, modification) record. Cross-process: the base of a few cases per shard is "
        "hashed in child interpreters with PYTHONHASHSEED in {1, 2, 12345}")
ASSUMPTIONS = [
    "'can influence the result' is decided operationally: when a changed setting leaves the hash unchanged both "
    "configurations are fitted and the results (parameters, chi-square, columns) must be identical",
    "data perturbations are applied to the abscissa/ordinate columns the fit uses (tip position, force)",
    "with plateau search on, 'lower range bound' is range_x[0] of a non-inverted interval",
    "hash observed through IndentationFitter(idnt, **kw).hash and through fit_properties['hash'] after fit_model",
]

KEYS = ["model_key", "range_type", "range_x", "segment", "weight_cp", "gcf_k", "method", "method_kws",
        "optimal_fit_edelta", "optimal_fit_num_samples", "x_axis", "y_axis"]


@st.composite
def st_base(draw):
    curve = draw(synth.st_curve(st, models=["hertz_para", "hertz_cone", "sneddon_spher_approx"],
                                n_range=(40, 160), with_tip=True, noise=st.sampled_from([0.0, 1e-2]), wide=False))
    depth = curve["depth"]
    curve["params"]["contact_point"] = draw(st.floats(-0.2, 0.2)) * depth
    plateau = draw(st.integers(0, 4)) == 0
    lo = -depth * draw(st.floats(0.3, 0.9))
    hi = curve["z0"] * draw(st.floats(0.3, 0.9))
    cfg = {"model_key": draw(st.sampled_from(["hertz_para", "hertz_cone", "hertz_pyr3s"])),
           "range_type": "absolute" if plateau else draw(st.sampled_from(["absolute", "relative cp"])),
           "range_x": draw(st.sampled_from([[0, 0], [lo, hi], [lo, hi]])) if not plateau else [lo, hi],
           "segment": 0 if plateau else draw(st.sampled_from([0, 1])),
           "weight_cp": draw(st.sampled_from([0, 1e-7, 5e-7, 2e-6])),
           "gcf_k": draw(st.sampled_from([1.0, 0.5, 0.8])),
           "method": draw(st.sampled_from(["leastsq", "nelder"])),
           "method_kws": draw(st.sampled_from([{}, {"ftol": 1e-9}, {"ftol": 1e-9, "xtol": 1e-9}]))
           if True else {},
           "optimal_fit_edelta": plateau,
           "optimal_fit_num_samples": draw(st.integers(7, 12)),
           "x_axis": "tip position", "y_axis": "force"}
    if cfg["method"] == "nelder":
        cfg["method_kws"] = draw(st.sampled_from([{}, {"tol": 1e-6}]))
    pre = draw(st.sampled_from([[], [], ["correct_force_offset"],
                                ["compute_tip_position", "correct_tip_offset", "correct_force_slope"]]))
    popts = {}
    if "correct_force_slope" in pre:
        popts = {"correct_force_slope": {"region": "baseline", "strategy": "shift"},
                 "correct_tip_offset": {"method": "deviation_from_baseline"}}
    pinit = {"E": 10 ** draw(st.floats(2.5, 4.5)), "cp_frac": draw(st.floats(-0.05, 0.05)),
             "vary_baseline": draw(st.booleans())}
    return {"curve": curve, "cfg": cfg, "pre": pre, "pre_options": popts, "pinit": pinit}


def st_mod(base):
    """strategy for ONE modification of the base record"""
    cfg = base["cfg"]
    depth = base["curve"]["depth"]
    mods = _Named()
    # --- relevant setting changes
    other_model = st.sampled_from([m for m in ["hertz_para", "hertz_cone", "hertz_pyr3s"] if m != cfg["model_key"]])
    mods.append(other_model.map(lambda v: {"kind": "setting", "key": "model_key", "value": v}))
    if not cfg["optimal_fit_edelta"]:
        mods.append(st.just({"kind": "setting", "key": "range_type",
                             "value": "relative cp" if cfg["range_type"] == "absolute" else "absolute"}))
        mods.append(st.just({"kind": "setting", "key": "segment", "value": 1 - cfg["segment"]}))
    mods.append(st.tuples(st.sampled_from([0, 1]), st.floats(0.01, 0.2), st.sampled_from([1, -1])).map(
        lambda t: {"kind": "range_bound", "index": t[0], "delta": t[1] * t[2] * depth}))
    mods.append(st.sampled_from([w for w in [0, 1e-7, 3e-7, 5e-7, 2e-6] if w != cfg["weight_cp"]]).map(
        lambda v: {"kind": "setting", "key": "weight_cp", "value": v}))
    mods.append(st.sampled_from([k for k in [1.0, 0.5, 0.8, 0.3] if k != cfg["gcf_k"]]).map(
        lambda v: {"kind": "setting", "key": "gcf_k", "value": v}))
    mods.append(st.just({"kind": "setting", "key": "method",
                         "value": "nelder" if cfg["method"] == "leastsq" else "leastsq", "reset_kws": True}))
    if cfg["method"] == "leastsq":
        mods.append(st.sampled_from([{"ftol": 1e-3}, {"ftol": 1e-3, "xtol": 1e-9}, {"xtol": 1e-3}]).filter(
            lambda v: v != cfg["method_kws"]).map(lambda v: {"kind": "setting", "key": "method_kws", "value": v}))
    mods.append(st.just({"kind": "setting", "key": "optimal_fit_edelta", "value": not cfg["optimal_fit_edelta"],
                         "force_plateau_ok": True}))
    if cfg["optimal_fit_edelta"]:
        mods.append(st.integers(7, 14).filter(lambda v: v != cfg["optimal_fit_num_samples"]).map(
            lambda v: {"kind": "setting", "key": "optimal_fit_num_samples", "value": v}))
    # with plateau search on, the upper bound is max(range_x): equal bounds (u, u) and (v, v) are different settings
    mods.append(st.tuples(st.floats(0.25, 0.45), st.floats(0.55, 0.9)).map(
        lambda t: {"kind": "range_equal", "u": t[0], "v": t[1]}))
    # --- parameter attributes
    mods.append(st.sampled_from(["E", "contact_point", "baseline"]).flatmap(lambda name: st.sampled_from([
        {"kind": "param", "name": name, "attr": "value", "factor": 1.07},
        {"kind": "param", "name": name, "attr": "vary"},
        {"kind": "param", "name": name, "attr": "min"},
        {"kind": "param", "name": name, "attr": "max"}])))
    mods.append(st.just({"kind": "param", "name": "baseline", "attr": "expr"}))
    # an expression that evaluates to the value a fixed parameter already has (only `expr` differs)
    mods.append(st.just({"kind": "param", "name": "baseline", "attr": "expr_same"}))
    # a bound of a parameter that is constrained by an expression (lmfit clips the evaluated expression to it)
    mods.append(st.sampled_from(["min", "max"]).map(lambda w: {"kind": "param", "name": "baseline", "attr": "expr_bound",
                                                               "which": w}))
    # SI-scale settings are tiny numbers: changes far below 1e-12 in absolute terms are still changes
    mods.append(st.tuples(st.sampled_from(["baseline_fixed", "contact_point_fixed", "weight_cp", "gcf_k", "range_hi"]),
                          st.floats(1e-13, 4e-13), st.sampled_from([1, -1])).map(
        lambda t: {"kind": "tiny", "what": t[0], "delta": t[1] * t[2]}))
    # --- data
    mods.append(st.tuples(st.sampled_from(["force", "tip position"]), st.floats(0, 1),
                          st.sampled_from(["ulp", "ulp", 1e-12, 1e-6, 1e-2])).map(
        lambda t: {"kind": "data", "column": t[0], "where": t[1], "amount": t[2]}))
    # --- preprocessing
    mods.append(st.sampled_from([["correct_force_offset"], ["compute_tip_position", "correct_tip_offset"], []]).filter(
        lambda v: v != base["pre"]).map(lambda v: {"kind": "preprocessing", "value": v}))
    if base["pre_options"]:
        mods.append(st.sampled_from([("correct_force_slope", "strategy", "drift"), ("correct_force_slope", "region", "all"),
                                     ("correct_tip_offset", "method", "fit_constant_line")]).map(
            lambda t: {"kind": "pre_option", "step": t[0], "name": t[1], "value": t[2]}))
    # --- representation variants (must NOT change the hash)
    mods.append(st.sampled_from(["range_tuple", "ints_as_floats", "floats_as_ints", "segment_name", "bool_as_int",
                                 "kws_order", "options_order", "copy_params", "params_order", "pre_tuple", "param_fit_byproducts", "int_range",
                                 "int_range"]).map(
        lambda v: {"kind": "representation", "variant": v}))
    # --- documented don't-cares
    if cfg["optimal_fit_edelta"]:
        mods.append(st.floats(0.01, 0.2).map(lambda f: {"kind": "dontcare", "what": "range_lower", "delta": -f * depth}))
    else:
        mods.append(st.integers(7, 40).filter(lambda v: v != cfg["optimal_fit_num_samples"]).map(
            lambda v: {"kind": "dontcare", "what": "num_samples", "value": v}))
    return mods.groups()


class _Named(list):
    """list of strategies; groups() merges them by the label of the modification they produce"""

    def groups(self):
        return list(self)


GROUPS = ["tiny", "range_equal", "model_key", "range_type", "segment", "range_bound", "weight_cp", "gcf_k", "method", "method_kws",
          "optimal_fit_edelta", "optimal_fit_num_samples", "param", "param_expr", "data", "preprocessing",
          "pre_option", "representation", "dontcare"]


def group_of(mod):
    k = mod["kind"]
    if k == "setting":
        return mod["key"]
    if k == "param":
        return "param_expr" if mod["attr"].startswith("expr") else "param"
    return k


def st_case(group):
    """cases whose modification belongs to one group: the groups are scheduled round-robin by run()
    so that every kind of change gets the same share (Hypothesis' own choice among alternatives is
    heavily biased towards the first ones)"""
    @st.composite
    def _case(draw):
        base = draw(st_base())
        if group == "optimal_fit_num_samples" or (group == "dontcare" and draw(st.booleans())):
            base["cfg"].update(optimal_fit_edelta=True, range_type="absolute", segment=0)
            if base["cfg"]["range_x"][0] == base["cfg"]["range_x"][1]:
                base["cfg"]["range_x"] = [-0.5 * base["curve"]["depth"], 0.5 * base["curve"]["z0"]]
        if group == "method_kws":
            base["cfg"].update(method="leastsq", method_kws={})
        if group == "pre_option":
            base["pre"] = ["compute_tip_position", "correct_tip_offset", "correct_force_slope"]
            base["pre_options"] = {"correct_force_slope": {"region": "baseline", "strategy": "shift"},
                                   "correct_tip_offset": {"method": "deviation_from_baseline"}}
        if group in ("range_type", "segment"):
            base["cfg"]["optimal_fit_edelta"] = False
        mod = draw(st.one_of(*st_mod(base)).filter(lambda m: group_of(m) == group))
        return {"base": base, "mod": mod}
    return _case()


def build(base, mod=None, fit=False):
    """returns (idnt, kwargs) for the base, optionally with the modification applied"""
    base = copy.deepcopy(base)
    mod = mod or {"kind": "none"}
    curve, cfg = base["curve"], base["cfg"]
    pre, popts = list(base["pre"]), copy.deepcopy(base["pre_options"])
    kind = mod["kind"]
    if kind == "preprocessing":
        pre = list(mod["value"])
        popts = {k: v for k, v in popts.items() if k in pre}
    elif kind == "pre_option":
        popts[mod["step"]][mod["name"]] = mod["value"]
    a = synth.arrays(curve)
    data = {"force": a["force"].copy(), "height (measured)": a["height"].copy(), "segment": a["segment"].copy(),
            "time": a["time"].copy(), "tip position": a["tip"].copy()}
    if kind == "data":
        col = data[mod["column"]]
        i = int(mod["where"] * (col.size - 1))
        if mod["amount"] == "ulp":
            col[i] = np.nextafter(col[i], np.inf)
        else:
            col[i] = col[i] + mod["amount"] * (np.max(np.abs(col)) or 1e-9)
    from nanite.indent import Indentation
    idnt = Indentation(data=data, metadata=synth.metadata(curve))
    variant = mod.get("variant")
    if pre or popts:
        p_arg = tuple(pre) if variant == "pre_tuple" else pre
        if variant == "options_order":
            popts = {k: dict(reversed(list(v.items()))) for k, v in reversed(list(popts.items()))}
        idnt.apply_preprocessing(p_arg, popts)
    kw = copy.deepcopy(cfg)
    from vlib.fitgen import make_params
    pi = make_params(cfg["model_key"] if not (kind == "setting" and mod["key"] == "model_key") else mod["value"],
                     {"E": base["pinit"]["E"], "contact_point": curve["params"]["contact_point"] + base["pinit"]["cp_frac"] * curve["depth"]},
                     {"baseline": base["pinit"]["vary_baseline"]})
    twin = base.get("_twin_mod") or mod
    if twin.get("kind") == "tiny" and twin["what"].endswith("_fixed"):
        pi[twin["what"].split("_fixed")[0]].set(vary=False)
    if twin.get("kind") == "tiny" and twin["what"] == "weight_cp" and not kw["weight_cp"]:
        kw["weight_cp"] = 5e-7
    if twin.get("kind") == "representation" and twin.get("variant") == "int_range":
        # an interval (in metres) that covers every curve, given with integer-valued bounds
        kw.update(range_x=[-1.0, 1.0], range_type="absolute")
        if kind == "representation":
            kw["range_x"] = [-1, 1]
    if twin.get("kind") == "range_equal":
        kw.update(optimal_fit_edelta=True, range_type="absolute", segment=0,
                  range_x=[twin["u"] * curve["z0"], twin["u"] * curve["z0"]])
    if twin.get("kind") == "param" and twin.get("attr") == "expr_same":
        pi["baseline"].set(vary=False)
    if twin.get("kind") == "param" and twin.get("attr") == "expr_bound":
        pi["baseline"].set(expr="E*1e-15", min=-1e-6, max=1e-6)
    if kind == "setting":
        kw[mod["key"]] = mod["value"]
        if mod.get("reset_kws"):
            kw["method_kws"] = {}
        if mod["key"] == "optimal_fit_edelta" and mod["value"]:
            kw["range_type"] = "absolute"
            kw["segment"] = 0
    elif kind == "range_bound":
        r = list(kw["range_x"])
        if r[0] == r[1]:
            r = [-0.5 * curve["depth"], 0.5 * curve["z0"]]
            kw["range_x"] = list(r)
            base["cfg"]["range_x"] = list(r)
        r[mod["index"]] += mod["delta"]
        kw["range_x"] = r
    elif kind == "param":
        p = pi[mod["name"]]
        if mod["attr"] == "value":
            p.set(value=p.value * mod["factor"] if p.value else 1e-9)
        elif mod["attr"] == "vary":
            p.set(vary=not p.vary)
        elif mod["attr"] == "min":
            p.set(min=p.value - abs(p.value) * 0.5 - 1e-7)
        elif mod["attr"] == "max":
            p.set(max=p.value + abs(p.value) * 0.5 + 1e-7)
        elif mod["attr"] == "expr":
            p.set(expr="E*1e-15")
        elif mod["attr"] == "expr_same":
            p.set(expr="%r + 0*E" % float(p.value))
        elif mod["attr"] == "expr_bound":
            if mod["which"] == "max":
                p.set(max=1e-13)
            else:
                p.set(min=1e-9)
    elif kind == "range_equal":
        kw.update(optimal_fit_edelta=True, range_type="absolute", segment=0,
                  range_x=[mod["v"] * curve["z0"], mod["v"] * curve["z0"]])
    elif kind == "tiny":
        w = mod["what"]
        if w == "weight_cp":
            kw["weight_cp"] = (kw["weight_cp"] or 5e-7) + mod["delta"]
        elif w == "gcf_k":
            kw["gcf_k"] = kw["gcf_k"] + mod["delta"]
        elif w == "range_hi":
            r = list(kw["range_x"])
            r[1] = r[1] + mod["delta"]
            kw["range_x"] = r
        else:
            name = w.split("_fixed")[0]
            pi[name].set(value=pi[name].value + mod["delta"], vary=False)
    elif kind == "dontcare":
        if mod["what"] == "num_samples":
            kw["optimal_fit_num_samples"] = mod["value"]
        else:
            kw["range_x"] = [kw["range_x"][0] + mod["delta"], kw["range_x"][1]]
    elif kind == "representation":
        if variant == "range_tuple":
            kw["range_x"] = tuple(kw["range_x"])
        elif variant == "ints_as_floats":
            kw["segment"] = kw["segment"]
            kw["optimal_fit_num_samples"] = float(kw["optimal_fit_num_samples"]) if False else kw["optimal_fit_num_samples"]
            kw["range_x"] = [float(v) for v in kw["range_x"]]
            kw["weight_cp"] = float(kw["weight_cp"])
        elif variant == "floats_as_ints":
            if kw["gcf_k"] == 1.0:
                kw["gcf_k"] = 1
            if kw["weight_cp"] == 0:
                kw["weight_cp"] = False
            if all(float(v) == int(v) for v in kw["range_x"]):
                kw["range_x"] = [int(v) for v in kw["range_x"]]
        elif variant == "segment_name":
            kw["segment"] = {0: "approach", 1: "retract"}[kw["segment"]]
        elif variant == "bool_as_int":
            kw["optimal_fit_edelta"] = int(kw["optimal_fit_edelta"])
        elif variant == "kws_order":
            kw["method_kws"] = dict(reversed(list(kw["method_kws"].items())))
        elif variant == "copy_params":
            pi = copy.deepcopy(pi)
        elif variant == "params_order":
            # the same parameters (name, value, bounds, vary, expr), inserted in the reverse order
            import lmfit
            rev = lmfit.Parameters()
            for n_ in reversed(list(pi.keys())):
                par = pi[n_]
                rev.add(n_, value=par.value, min=par.min, max=par.max, vary=par.vary)
            for n_ in pi:
                if pi[n_].expr:
                    rev[n_].set(expr=pi[n_].expr)
            pi = rev
        elif variant == "param_fit_byproducts":
            # the same settings on Parameter objects that went through a fit (stderr, correl, init_value are results)
            pi = copy.deepcopy(pi)
            for n_, par in pi.items():
                par.stderr = 1.2345
                par.correl = {"E": 0.5}
                par.init_value = 42.0
        elif variant == "int_range":
            kw["range_x"] = [-1, 1]
    kw["params_initial"] = pi
    return idnt, kw


def get_hash(idnt, kw):
    from nanite.fit import IndentationFitter
    return IndentationFitter(idnt, **kw).hash


def results(base, mod):
    idnt, kw = build(base, mod)
    idnt.fit_model(**kw)
    fp = idnt.fit_properties
    return {"params": fitgen.pstate(fp.get("params_fitted")), "chi": fp.get("chi_sqr"), "success": fp.get("success"),
            "fit": idnt["fit"].tobytes(), "range": idnt["fit range"].tobytes(), "hash": fp.get("hash"),
            "xmin": fp.get("xmin"), "xmax": fp.get("xmax")}


def check_case(case, ctx):
    base, mod = case["base"], case["mod"]
    kind = mod["kind"]
    label = kind + ":" + str(mod.get("key") or mod.get("attr") or mod.get("variant") or mod.get("what") or mod.get("column") or "")
    desc = {"change": label}
    ctx.note_case(case, nontrivial=True, classes=[kind, label])
    base = dict(base, _twin_mod=mod)   # the unmodified side shares the preconditions of the modification
    with fitgen.catch() as box:
        i1, kw1 = build(base)
        h1 = get_hash(i1, kw1)
        i1b, kw1b = build(base)
        h1b = get_hash(i1b, kw1b)
    if box["exc"] is not None:
        ctx.event("base_rejected_" + type(box["exc"]).__name__)
        return
    ctx.check(h1 == h1b, "hash-not-reproducible", desc, f"two equal objects hash to {h1} and {h1b}")
    ctx.check(isinstance(h1, str) and len(h1) == 32, "hash-format", desc, repr(h1))
    with fitgen.catch() as box:
        i2, kw2 = build(base, mod)
        h2 = get_hash(i2, kw2)
    if box["exc"] is not None:
        if kind in ("representation", "dontcare"):
            ctx.fail("equivalent-input-rejected", dict(desc, exception=type(box["exc"]).__name__),
                     f"{label}: raised {box['exc']!r}")
        ctx.event("modified_rejected_" + type(box["exc"]).__name__)
        return
    if kind in ("representation", "dontcare"):
        ctx.check(h1 == h2, "hash-depends-on-" + kind, desc, f"{label}: {h1} vs {h2} ({json.dumps(mod)})")
    else:
        if kind == "data":
            # "changing ... a single data sample changes the hash": stated unconditionally, also for a sample of the
            # segment that is not fitted - provided the change survives the preprocessing (a 1 ulp change can be
            # rounded away by an offset correction, a median filter can absorb a sample)
            seen_differs = any(not np.array_equal(i1[c], i2[c]) for c in (kw1["x_axis"], kw1["y_axis"]))
            if seen_differs:
                ctx.check(h1 != h2, "data-change-same-hash", desc,
                          f"{label} ({json.dumps(mod)}): the abscissa/ordinate seen by the fit differ, hash {h1} for both")
            else:
                ctx.event("data_change_absorbed_by_preprocessing")
        if h1 == h2:
            # allowed only if the change cannot influence the result
            with fitgen.catch() as box:
                r1 = results(base, None)
                r2 = results(base, mod)
            if box["exc"] is not None:
                ctx.event("equal_hash_fit_rejected")
                return
            same = all(r1[k] == r2[k] for k in ("params", "chi", "success", "fit", "range", "xmin", "xmax"))
            ctx.check(same, "equal-hash-different-result", desc,
                      f"{label} ({json.dumps(mod)}): hash {h1} for both, results differ: "
                      f"{[k for k in r1 if r1[k] != r2[k] and k not in ('fit', 'range')]}")
            ctx.event("equal_hash_equal_result")
    # hash after history: fit the base, then request the modified configuration on the SAME object; the stored hash
    # must be the hash a fresh object gets for that configuration (pure function of values)
    from vlib.runner import fingerprint
    pick = int(fingerprint(case), 16)     # a pure function of the case (replayable), not of a run counter
    if kind in ("setting", "param", "range_bound", "tiny") and pick % 3 == 0:
        with fitgen.catch() as box:
            i1.fit_model(**kw1)
            kw2h = {k: v for k, v in kw2.items()}
            i1.fit_model(**kw2h)
        if box["exc"] is None and "hash" in i1.fit_properties:
            ctx.check(i1.fit_properties["hash"] == h2, "hash-depends-on-history", desc,
                      f"{label}: after fitting the base and then the modified settings on one object the stored hash is "
                      f"{i1.fit_properties['hash']}, a fresh object hashes the same settings to {h2}")
            ctx.event("history_hash_compared")
        return
    # the hash stored after fitting is the fitter's hash
    if pick % 10 == 1:
        with fitgen.catch() as box:
            i1.fit_model(**kw1)
        if box["exc"] is None:
            ctx.check(i1.fit_properties["hash"] == h1, "stored-hash-differs", desc,
                      f"fit_properties['hash']={i1.fit_properties['hash']} vs fitter hash {h1}")


CHILD = r"""
import sys, json
sys.path.insert(0, %r); sys.path.insert(0, %r)
import warnings; warnings.simplefilter("ignore")
from vlib import runner; runner.import_tree()
import checks.c12_fit_hash as c
base = json.loads(sys.stdin.read())
idnt, kw = c.build(base)
print("HASH", c.get_hash(idnt, kw))
"""


def check_cross_process(base, ctx):
    idnt, kw = build(base)
    h = get_hash(idnt, kw)
    ctx.note_case({"cross_process": base}, nontrivial=True, classes=["cross_process"])
    for hs in ("1", "2", "12345"):
        env = dict(os.environ, PYTHONHASHSEED=hs, VERIF_REPO=str(REPO))
        out = subprocess.run([sys.executable, "-c", CHILD % (str(REPO / "src"), str(VERIF))],
                             input=json.dumps(base), capture_output=True, text=True, env=env, timeout=300)
        got = [line.split()[1] for line in out.stdout.splitlines() if line.startswith("HASH")]
        if not got:
            from vlib.runner import HarnessError
            raise HarnessError("child hash process failed: " + out.stderr[-500:])
        ctx.check(got[0] == h, "hash-differs-across-processes", {"hashseed": hs},
                  f"parent {h}, child with PYTHONHASHSEED={hs}: {got[0]}")


def run(ctx):
    n = max(1, ctx.scale(2400, 40000) // len(GROUPS))
    for group in GROUPS:
        ctx.hypothesis(st_case(group), check_case, n, label="pairs:" + group)
    ctx.hypothesis(st_base(), check_cross_process, max(1, ctx.scale(16, 480)), label="cross-process")


def replay(case, ctx):
    if "mod" in case:
        check_case(case, ctx)
    else:
        check_cross_process(case, ctx)
