"""C15 — training sets load clean, aligned, and survive export.

(a) Hypothesis-generated training matrices are written as ``train_<feature>.txt`` /
    ``train_response.txt`` text files (np.savetxt, the exporter's ``%.2e`` and full
    precision formats) and loaded with ``IndentationRater.load_training_set`` for feature
    subsets in arbitrary order and all 8 flag combinations; the result is compared with a
    row-wise reference loader written from the docstring / property statement.
(b) ``compute_sample_weight``: non-negative, sums to one, equal total weight per class.
(c) 1-5 fitted curves (synthetic and recorded) are saved to a rating container, exported
    with ``RateManager.export_training_set`` and loaded again.
"""
import hashlib
import itertools
import math
import pathlib
import shutil

import numpy as np
from hypothesis import strategies as st

from vlib import synth
from vlib.runner import REPO

PROPERTY = "C15"
SHARDS = {"quick": 8, "thorough": 16}
RULE = ("load: Hypothesis draws a response list (1-60 rows, rating palette of 1-5 classes out of 0..10), "
        "a value mode (unit / signed / wide 1e+-30 / ties incl. zeros) with a RandomState seed, a list of "
        "NaN/+inf/-inf operations (single cell, j-th row of one rating class, all-but-k rows of one rating class "
        "in one column, random sprinkle, whole row, whole column), a feature-name list in arbitrary order (duplicates, binary names) or None, a "
        "which_type, a text format and a tag column; every case is loaded with all 8 flag combinations. "
        "non-trivial = at least one NaN or infinity in a selected column (the loader has something to clean). "
        "export: 1-5 save operations (synthetic curve, recorded curve, re-rating of an earlier curve) into one "
        "container; non-trivial = at least one curve was exported. weights: rating vectors of 1-300 integers "
        "0..10; non-trivial = at least two classes present. distinct = distinct case record")
ASSUMPTIONS = [
    "order of cleaning = order of the statement/docstring: impute, then drop NaN rows, then replace "
    "infinities using the largest finite magnitude among the remaining rows",
    "the imputed mean may differ from the exactly rounded mean by 4*n*eps*max|reference values| (numpy "
    "pairwise summation vs math.fsum); every other entry must be bit-identical to float(text token)",
    "a mean over reference values that contain an infinity is that infinity (NaN for both signs), as "
    "IEEE arithmetic gives; the infinity is then subject to the infinity replacement",
    "outside the domain, counted in classes 'ood:*' and not asserted: a column that contains an infinity "
    "but no finite entry among the remaining rows (no largest finite magnitude exists); a feature "
    "selection that is empty (only binary names with the default which_type); empty rating vectors "
    "for the weights",
    "expected columns = sorted(set(names) & features of which_type) (binary names are silently dropped by "
    "the default which_type=['continuous']); feature names are taken from dir(IndentationFeatures)",
    "ratings are integers 0..10 (export histories also use 0.4, 7.5, 2.25 and 9.9: representable with the three "
    "significant digits of the exported text)",
    "container order = iteration order of the 'analysis' group as h5py reports it; a curve's features = "
    "IndentationRater.compute_features of the fitted in-memory curve at the time of its first save",
    "curves whose fit or feature computation raises are left out of the container (C17/C06 territory)",
    "weights: |sum-1| <= 4*n*eps, class totals equal within 4*n*eps relative",
]
EPS = float(np.finfo(float).eps)
NAN, INF = float("nan"), float("inf")
SPECIAL = {"nan": NAN, "inf": INF, "-inf": -INF}
FORMATS = ["%.2e", "%.2e", "%.18e", "%.17g", "%.6g"]
FLAGS = list(itertools.product([False, True], repeat=3))   # impute, remove_nan, replace_inf
WHICH = [None, None, None, None, "continuous", ["continuous"], "all", ["binary", "continuous"],
         ["continuous", "binary"], "binary"]
RECORDED = [
    "fmt-jpk-fd_flipsign_2015.05.22-15.31.49.352.jpk-force",
    "fmt-jpk-fd_map-data-reference-points.jpk-force-map",
    "fmt-jpk-fd_map2x2_extracted.jpk-force-map",
    "fmt-jpk-fd_single_bad_2017-01-16_2.jpk-force",
    "fmt-jpk-fd_single_bad_bead10_2017-04-27.jpk-force",
    "fmt-jpk-fd_single_tilted-baseline-shift-adyp_2023-06-26.jpk-force",
    "fmt-jpk-fd_spot3-0192.jpk-force",
]
FIT_MODELS = ["hertz_para", "hertz_cone", "hertz_pyr3s", "sneddon_spher_approx"]
PREPROC = [["compute_tip_position"],
           ["compute_tip_position", "correct_force_offset"],
           ["compute_tip_position", "correct_force_offset", "correct_tip_offset"]]

_names = {}
_counter = [0]


def feature_names():
    """(all, binary, continuous) feature names, independent of get_feature_names()"""
    if not _names:
        from nanite.rate.features import IndentationFeatures
        allf = sorted(n for n in dir(IndentationFeatures) if n.startswith("feat_"))
        _names["all"] = allf
        _names["binary"] = [n for n in allf if n.startswith("feat_bin_")]
        _names["continuous"] = [n for n in allf if n.startswith("feat_con_")]
    return _names["all"], _names["binary"], _names["continuous"]


def expected_columns(names, which_type):
    allf, binf, conf = feature_names()
    pools = {"all": allf, "binary": binf, "continuous": conf}
    if which_type is None:
        which_type = ["continuous"]
    if isinstance(which_type, str):
        which_type = [which_type]
    pool = set()
    for wt in which_type:
        pool |= set(pools[wt])
    if names:
        pool &= set(names)
    return sorted(pool)


def content_id(path):
    return hashlib.sha256(pathlib.Path(path).read_bytes()).hexdigest()[:12]


def fresh_dir(ctx, stem):
    _counter[0] += 1
    d = ctx.workdir / f"{stem}{_counter[0]}"
    d.mkdir(parents=True, exist_ok=True)
    return d


# ---------------------------------------------------------------------------
# reference loader (row-wise, from the docstring / statement)

def mean_of(vals):
    pos = any(v == INF for v in vals)
    neg = any(v == -INF for v in vals)
    if pos and neg:
        return NAN
    if pos:
        return INF
    if neg:
        return -INF
    return math.fsum(vals) / len(vals)


def ref_load(rows, resp, impute, remove_nan, replace_inf):
    """rows: list of row lists, resp: list.  Returns dict(rows, resp, kinds, tol, undefined, events)"""
    rows = [list(r) for r in rows]
    resp = list(resp)
    ncol = len(rows[0])
    kinds = [["untouched"] * ncol for _ in rows]
    tol = [0.0] * ncol
    events = set()
    if impute:
        zero = [i for i, y in enumerate(resp) if y == 0]
        for c in range(ncol):
            targets = [i for i in zero if math.isnan(rows[i][c])]
            refs = [rows[i][c] for i in zero if not math.isnan(rows[i][c])]
            if targets and refs:
                m = mean_of(refs)
                for i in targets:
                    rows[i][c] = m
                    kinds[i][c] = "imputed"
                fin = [abs(v) for v in refs if math.isfinite(v)]
                if fin:
                    tol[c] = 4 * len(refs) * EPS * max(fin)
                events.add("imputed" if len(fin) == len(refs) else "imputed_from_infinite_reference")
            elif targets:
                events.add("zero_rated_nan_without_reference")
    if remove_nan:
        keep = [i for i, r in enumerate(rows) if not any(math.isnan(v) for v in r)]
        if len(keep) < len(rows):
            events.add("rows_dropped" if keep else "all_rows_dropped")
        rows = [rows[i] for i in keep]
        resp = [resp[i] for i in keep]
        kinds = [kinds[i] for i in keep]
    undefined = False
    if replace_inf:
        for c in range(ncol):
            col = [r[c] for r in rows]
            if any(math.isinf(v) for v in col):
                fin = [abs(v) for v in col if math.isfinite(v)]
                if not fin:
                    undefined = True
                    continue
                ext = max(fin)
                events.add("inf_replaced")
                for i, v in enumerate(col):
                    if math.isinf(v):
                        rows[i][c] = math.copysign(2 * ext, v)
                        kinds[i][c] = "inf-replaced"
    return {"rows": rows, "resp": resp, "kinds": kinds, "tol": tol, "undefined": undefined,
            "events": events}


def cell_ok(got, want, tol):
    if math.isnan(want) or math.isnan(got):
        return math.isnan(want) and math.isnan(got)
    if math.isinf(want) or math.isinf(got):
        return got == want
    return abs(got - want) <= tol


def read_column(path):
    """independent parse of one text column: one float per non-empty line"""
    return [float(tok) for tok in pathlib.Path(path).read_text().split()]


def flag_text(flags):
    return "impute=%d,remove_nan=%d,replace_inf=%d" % tuple(int(f) for f in flags)


# ---------------------------------------------------------------------------
# oracle on a directory of text files

def verify_directory(path, names, which_type, ctx, desc, tag=None):
    """Load ``path`` with all 8 flag combinations and compare with the reference.

    tag: name of a column whose file holds row number + 1 (unique, finite, never cleaned).
    Returns dict(cols, n, special, events, default=(X, y) or None)."""
    from nanite.rate import IndentationRater
    info = {"cols": expected_columns(names, which_type), "special": False, "events": set(),
            "default": None, "n": 0}
    cols = info["cols"]
    kw0 = {"path": path}
    if names is not None:
        kw0["names"] = list(names)
    if which_type is not None:
        kw0["which_type"] = which_type
    if not cols:
        # empty feature selection: nothing to load, outside the domain
        try:
            IndentationRater.load_training_set(**kw0)
            ctx.event("ood:empty_selection:returned")
        except Exception as exc:
            ctx.event(f"ood:empty_selection:raised_{type(exc).__name__}")
        return info
    table = {c: read_column(pathlib.Path(path) / f"train_{c}.txt") for c in cols}
    resp = read_column(pathlib.Path(path) / "train_response.txt")
    n = info["n"] = len(resp)
    if any(len(table[c]) != n for c in cols):
        raise AssertionError("harness: column files of different lengths")
    rows0 = [[table[c][i] for c in cols] for i in range(n)]
    info["special"] = any(not math.isfinite(v) for r in rows0 for v in r)
    desc = dict(desc, rows="one" if n == 1 else "many")
    tagidx = cols.index(tag) if tag in cols else None

    for flags in FLAGS:
        exp = ref_load(rows0, resp, *flags)
        d = dict(desc, flags=flag_text(flags))
        kw = dict(kw0)
        if not all(flags):
            # the all-on combination is requested through the defaults
            kw.update(impute_zero_rated_nan=flags[0], remove_nan=flags[1], replace_inf=flags[2])
        if exp["undefined"]:
            try:
                IndentationRater.load_training_set(**kw)
                ctx.event("ood:inf_without_finite:returned")
            except Exception as exc:
                ctx.event(f"ood:inf_without_finite:raised_{type(exc).__name__}")
            continue
        info["events"] |= exp["events"]
        ctx.extra["flag_combinations_compared"] = ctx.extra.get("flag_combinations_compared", 0) + 1
        out = None
        with ctx.no_raise("load-raises", d):
            out = IndentationRater.load_training_set(ret_names=True, **kw)
        if out is None:
            continue
        if not ctx.check(len(out) == 3, "return-arity", d, f"ret_names=True returned {len(out)} items"):
            continue
        X, y, got_names = out
        if not ctx.check(list(got_names) == cols, "column-names", d,
                         f"names={names} which_type={which_type}: returned {list(got_names)}, "
                         f"expected sorted selection {cols}"):
            continue
        nexp = len(exp["rows"])
        ok = ctx.check(isinstance(X, np.ndarray) and X.ndim == 2 and X.shape == (nexp, len(cols))
                       and X.dtype == np.float64, "sample-shape", d,
                       f"samples {type(X).__name__} shape {getattr(X, 'shape', None)}, expected {(nexp, len(cols))}")
        ok &= ctx.check(isinstance(y, np.ndarray) and y.ndim == 1 and y.shape == (nexp,), "response-shape", d,
                        f"response shape {getattr(y, 'shape', None)} for samples of shape "
                        f"{getattr(X, 'shape', None)}; expected 1d of length {nexp} ({n} rows in the files)")
        if not ok:
            continue
        # pairing, observable through the tag column, independent of the reference loader
        if tagidx is not None:
            for j in range(nexp):
                t = float(X[j, tagidx])
                if not ctx.check(t == int(t) and 1 <= t <= n, "tag-altered", d,
                                 f"row {j}: tag value {t!r} is not one of the written row tags"):
                    break
                if not ctx.check(float(y[j]) == resp[int(t) - 1], "row-response-pairing", d,
                                 f"output row {j} is input row {int(t) - 1} (rating {resp[int(t) - 1]}) "
                                 f"but is paired with response {float(y[j])}; n={n}"):
                    break
        ctx.check([float(v) for v in y] == exp["resp"], "response-values", d,
                  f"response {[float(v) for v in y][:12]} expected {exp['resp'][:12]}")
        bad = None
        for j in range(nexp):
            for c in range(len(cols)):
                got, want = float(X[j, c]), exp["rows"][j][c]
                if not cell_ok(got, want, exp["tol"][c]):
                    bad = (j, c)
                    break
                if exp["tol"][c] and got != want and math.isfinite(want):
                    ctx.extra["max_imputed_dev_over_tol"] = max(ctx.extra.get("max_imputed_dev_over_tol", 0.0),
                                                                abs(got - want) / exp["tol"][c])
            if bad:
                break
        if bad:
            j, c = bad
            ctx.fail(f"{exp['kinds'][j][c]}-value", d,
                     f"output row {j} column {cols[c]}: got {float(X[j, c])!r}, expected "
                     f"{exp['rows'][j][c]!r} (tol {exp['tol'][c]:.3g}); file column {table[cols[c]][:12]}, "
                     f"responses {resp[:12]}")
        if flags[1]:
            ctx.check(not np.isnan(X).any(), "nan-left", d, "NaN in samples although remove_nan is on")
        if flags[2]:
            ctx.check(not np.isinf(X).any(), "inf-left", d, "infinity in samples although replace_inf is on")
        if all(flags):
            info["default"] = (X, y)
            ctx.check(np.isfinite(X).all(), "not-clean", d, "default load returned non-finite samples")
            # ret_names=False returns the pair only
            out2 = None
            with ctx.no_raise("load-raises", d):
                out2 = IndentationRater.load_training_set(**kw)
            if out2 is not None:
                ctx.check(len(out2) == 2 and np.array_equal(out2[0], X) and np.array_equal(out2[1], y),
                          "ret_names-changes-result", d, "ret_names=False result differs")
    return info


def verify_weights(X, y, ctx, desc):
    """weights >= 0, sum to one, same total per class present"""
    from nanite.rate import IndentationRater
    n = int(np.asarray(y).shape[0])
    w = None
    with ctx.no_raise("weights-raise", desc):
        w = IndentationRater.compute_sample_weight(X, y)
    if w is None:
        return
    ok = ctx.check(isinstance(w, np.ndarray) and w.shape == (n,), "weights-shape", desc,
                   f"weights shape {getattr(w, 'shape', None)} for {n} ratings")
    if not ok:
        return
    ctx.check(bool(np.all(w >= 0)), "weights-negative", desc, f"min weight {w.min()!r}")
    total = math.fsum(float(v) for v in w)
    ctx.check(abs(total - 1.0) <= 4 * n * EPS, "weights-sum", desc, f"sum of weights {total!r} for ratings {list(y)[:20]}")
    classes = sorted(set(float(v) for v in y))
    totals = [math.fsum(float(w[i]) for i in range(n) if float(y[i]) == k) for k in classes]
    want = 1.0 / len(classes)
    dev = max(abs(t - want) for t in totals) / want
    ctx.extra["max_weight_class_dev_eps"] = max(ctx.extra.get("max_weight_class_dev_eps", 0.0), dev / EPS)
    ctx.check(dev <= 4 * n * EPS, "weights-class-balance", desc,
              f"class totals {dict(zip(classes, totals))} for ratings {list(y)[:30]}")


# ---------------------------------------------------------------------------
# (a) generated matrices

def build_matrix(case, tagname):
    allf, binf, _ = feature_names()
    resp = case["resp"]
    n, ncol = len(resp), len(allf)
    rng = np.random.RandomState(case["seed"])
    mode = case["mode"]
    if mode == "unit":
        M = rng.uniform(0, 1, (n, ncol))
    elif mode == "signed":
        M = rng.normal(0, 1, (n, ncol)) * 10.0 ** rng.randint(-3, 4, size=ncol)
    elif mode == "wide":
        M = rng.choice([-1.0, 1.0], (n, ncol)) * 10.0 ** rng.uniform(-30, 30, (n, ncol))
    else:  # ties
        M = rng.choice([0.0, 0.0, 0.5, 1.0, -1.0, -2.5], (n, ncol))
    for b in binf:
        M[:, allf.index(b)] = rng.choice([0.0, 1.0], n, p=[0.1, 0.9])
    tagc = allf.index(tagname) if tagname else -1
    if tagc >= 0:
        M[:, tagc] = np.arange(1, n + 1)
    free = [c for c in range(ncol) if c != tagc]
    for op in case["ops"]:
        v = SPECIAL[op["v"]]
        c = op["c"] % ncol
        if op["t"] == "row":
            M[op["r"] % n, free] = v
        elif op["t"] == "sprinkle":
            hit = np.random.RandomState(op["seed"]).uniform(size=(n, ncol)) < op["p"]
            if tagc >= 0:
                hit[:, tagc] = False
            M[hit] = v
        elif c == tagc:
            continue
        elif op["t"] == "cell":
            M[op["r"] % n, c] = v
        elif op["t"] == "col":
            M[:, c] = v
        elif op["t"] == "class":
            members = [i for i in range(n) if resp[i] == op["k"]][op["skip"]:]
            M[members, c] = v
        elif op["t"] == "classcell":
            members = [i for i in range(n) if resp[i] == op["k"]]
            if members:
                M[members[op["j"] % len(members)], c] = v
    return M


def write_training_set(path, M, resp, fmt, resp_fmt):
    allf, _, _ = feature_names()
    for c, name in enumerate(allf):
        np.savetxt(path / f"train_{name}.txt", M[:, c], fmt=fmt)
    np.savetxt(path / "train_response.txt", np.array(resp, dtype=int if resp_fmt == "%d" else float), fmt=resp_fmt)


def check_load(case, ctx):
    cols = expected_columns(case["names"], case["which_type"])
    tag = cols[case["tag"] % len(cols)] if cols else None
    M = build_matrix(case, tag)
    d = fresh_dir(ctx, "ts")
    try:
        write_training_set(d, M, case["resp"], case["fmt"], case["resp_fmt"])
        desc = {"part": "load", "fmt": case["fmt"]}
        # classes are known only after the reference ran: collect first, note afterwards
        holder = {}
        try:
            holder = verify_directory(d, case["names"], case["which_type"], ctx, desc, tag=tag)
        finally:
            resp = case["resp"]
            classes = ["load", "fmt:" + case["fmt"], "mode:" + case["mode"],
                       "rows:1" if len(resp) == 1 else "rows:2-5" if len(resp) <= 5 else "rows:6-60",
                       "names:none" if case["names"] is None else "names:subset",
                       "which_type:" + ("default" if case["which_type"] is None else str(case["which_type"]))]
            if 0 not in resp:
                classes.append("no_zero_rated")
            elif set(resp) == {0}:
                classes.append("all_zero_rated")
            if case["names"] and set(case["names"]) & set(feature_names()[1]):
                classes.append("binary_name_requested")
            nanc = [c for c in holder.get("cols", []) if np.isnan(M[:, feature_names()[0].index(c)]).all()]
            if nanc:
                classes.append("all_nan_column")
            classes += sorted(holder.get("events", ()))
            ctx.note_case(case, nontrivial=bool(holder.get("special")), classes=classes)
        if holder.get("default") is not None:
            X, y = holder["default"]
            if y.shape[0]:
                verify_weights(X, y, ctx, {"part": "weights-of-loaded-set"})
            else:
                ctx.event("ood:weights_of_empty_set")
    finally:
        shutil.rmtree(d, ignore_errors=True)


@st.composite
def st_load(draw):
    allf, _, conf = feature_names()
    palette = draw(st.lists(st.integers(0, 10), min_size=1, max_size=5, unique=True))
    if draw(st.booleans()) and 0 not in palette:
        palette.append(0)
    lo, hi = draw(st.sampled_from([(1, 1), (2, 5), (2, 5), (6, 20), (6, 20), (6, 20), (21, 60), (21, 60)]))
    resp = draw(st.lists(st.sampled_from(palette), min_size=lo, max_size=hi))
    val = st.sampled_from(["nan", "nan", "nan", "inf", "-inf"])
    mostly_nan = st.sampled_from(["nan"] * 8 + ["inf", "-inf"])
    col = st.integers(0, len(allf) - 1)
    rating = st.sampled_from([0, 0, 0, 0] + list(range(11)))
    cell = st.fixed_dictionaries({"t": st.just("cell"), "r": st.integers(0, 59), "c": col, "v": val})
    classcell = st.fixed_dictionaries({"t": st.just("classcell"), "k": rating, "j": st.integers(0, 59),
                                       "c": col, "v": val})
    op = st.one_of(
        cell, cell, cell, classcell, classcell, classcell,
        st.fixed_dictionaries({"t": st.just("class"), "k": rating, "skip": st.integers(0, 3), "c": col,
                               "v": mostly_nan}),
        st.fixed_dictionaries({"t": st.just("sprinkle"), "seed": st.integers(0, 10 ** 6),
                               "p": st.sampled_from([0.01, 0.03, 0.1]), "c": st.just(0), "v": val}),
        st.one_of(st.fixed_dictionaries({"t": st.just("row"), "r": st.integers(0, 59), "c": st.just(0),
                                         "v": mostly_nan}),
                  st.fixed_dictionaries({"t": st.just("col"), "c": col, "v": mostly_nan})),
    )
    names = draw(st.one_of(
        st.none(),
        st.lists(st.sampled_from(conf), min_size=1, max_size=5),
        st.lists(st.sampled_from(allf), min_size=1, max_size=8),
        st.permutations(conf),
        st.permutations(allf),
    ))
    fmt = draw(st.sampled_from(FORMATS))
    return {"kind": "load", "resp": resp, "seed": draw(st.integers(0, 2 ** 31 - 1)),
            "mode": draw(st.sampled_from(["unit", "signed", "wide", "ties"])),
            "ops": draw(st.lists(op, max_size=10)), "names": names,
            "which_type": draw(st.sampled_from(WHICH)), "fmt": fmt,
            "resp_fmt": draw(st.sampled_from([fmt, fmt, "%d"])), "tag": draw(st.integers(0, 14))}


# ---------------------------------------------------------------------------
# (b) weights on generated rating vectors

def check_weights(case, ctx):
    y = np.array(case["y"], dtype=float if case["float"] else int)
    ctx.note_case(case, nontrivial=len(set(case["y"])) >= 2,
                  classes=["weights", "weights:%d_classes" % min(len(set(case["y"])), 11)])
    verify_weights(np.zeros((y.shape[0], 1)), y, ctx, {"part": "weights"})


@st.composite
def st_weights(draw):
    palette = draw(st.lists(st.integers(0, 10), min_size=1, max_size=11, unique=True))
    lo, hi = draw(st.sampled_from([(1, 3), (4, 20), (4, 20), (21, 300)]))
    y = draw(st.lists(st.sampled_from(palette), min_size=lo, max_size=hi))
    return {"kind": "weights", "y": y, "float": draw(st.booleans())}


# ---------------------------------------------------------------------------
# (c) export / load round trip

def check_export(case, ctx):
    import h5py
    import nanite
    from nanite.rate import IndentationRater
    from nanite.rate.io import RateManager, save_hdf5
    wd = fresh_dir(ctx, "exp")
    noted = False
    try:
        items = case["items"]
        # synthetic curves of measurement file f, in file order
        layout = {}
        for i, it in enumerate(items):
            if it["src"] == "synth":
                layout.setdefault(it["file"], []).append(i)
        groups, position = {}, {}
        for f, members in layout.items():
            if case["layout_reversed"]:
                members = members[::-1]
            p = synth.write_h5([items[i]["curve"] for i in members], wd / f"meas{f}.h5")
            groups[("synth", f)] = nanite.IndentationGroup(p)
            for pos, i in enumerate(members):
                position[i] = pos
        container = wd / "ratings.h5"
        manager = None
        model = {}      # (file content id, enum) -> {"features": {name: value}, "rating": r}
        saved = []      # keys in save order (first save)
        curves = {}     # key -> fitted Indentation
        for i, it in enumerate(items):
            if it["src"] == "again":
                if not saved:
                    continue
                key = saved[it["ref"] % len(saved)]
                idnt = curves[key]
            else:
                if it["src"] == "synth":
                    grp = groups[("synth", it["file"])]
                    # IndentationGroup order is the file's own (lexicographic) order: find by enum
                    idnt = [c for c in grp if int(c.enum) == position[i]][0]
                else:
                    gk = ("file", it["name"])
                    if gk not in groups:
                        groups[gk] = nanite.IndentationGroup(REPO / "tests" / "data" / it["name"])
                    grp = groups[gk]
                    idnt = grp[it["idx"] % len(grp)]
                # the container addresses measurement files by content: byte-identical files are one file
                key = (content_id(idnt.path), int(idnt.enum))
                if key not in model:
                    try:
                        idnt.fit_model(model_key=it["model_key"], preprocessing=list(PREPROC[it["prep"]]))
                        vals, fnames = IndentationRater.compute_features(idnt, ret_names=True)
                    except BaseException as exc:  # noqa - not this property
                        if isinstance(exc, (KeyboardInterrupt, SystemExit, MemoryError)):
                            raise
                        ctx.event(f"export:curve_skipped_{type(exc).__name__}")
                        continue
                    model[key] = {"features": dict(zip(fnames, [float(v) for v in vals]))}
                    curves[key] = idnt
                    saved.append(key)
                else:
                    idnt = curves[key]
            model[key]["rating"] = it["rating"]
            save_hdf5(container, idnt, user_rate=it["rating"], user_name="verif", user_comment=f"item {i}")
            if manager is None and i % 2 == 0:
                # a manager object that is kept while the container grows (it has read the ratings once)
                manager = RateManager(container)
                try:
                    manager.ratings, manager.datasets
                except BaseException as exc:  # noqa
                    if isinstance(exc, (KeyboardInterrupt, SystemExit, MemoryError)):
                        raise
        ncurves = len(model)
        classes = ["export", "export:%d_curves" % ncurves]
        if any(it["src"] == "again" for it in items):
            classes.append("export:rerated")
        if len(set(k[0] for k in model)) > 1:
            classes.append("export:several_measurement_files")
        ctx.note_case(case, nontrivial=ncurves >= 1, classes=classes)
        noted = True
        if not ncurves:
            return
        # container order as h5py reports it
        order = []
        with h5py.File(container, "r") as h5:
            for akey in h5["analysis"]:
                at = h5["analysis"][akey].attrs
                src = h5["data"][at["data hash"]].attrs["path"]
                order.append((content_id(src), int(at["data enum"])))
        if sorted(order) != sorted(model):
            raise AssertionError(f"harness: container entries {order} vs saved {sorted(model)}")
        if order != saved:
            ctx.event("export:container_order_differs_from_save_order")
        desc = {"part": "export"}
        out = wd / "training_set"
        # exported either by a new manager or by the one kept since an earlier state of the container
        kept = manager is not None and case.get("layout_reversed") is not None and len(items) % 2 == 1
        desc = {"part": "export", "manager": "kept" if kept else "new"}
        with ctx.no_raise("export-raises", desc):
            (manager if kept else RateManager(container)).export_training_set(out)
        allf, _, _ = feature_names()
        want_files = sorted([f"train_{n}.txt" for n in allf] + ["train_response.txt"])
        got_files = sorted(p.name for p in out.glob("*")) if out.exists() else []
        if not ctx.check(got_files == want_files, "export-files", desc, f"exported files {got_files}"):
            return
        # text format of the exporter: one '%.2e' token per curve
        ratings = [float(model[k]["rating"]) for k in order]
        got_resp = read_column(out / "train_response.txt")
        ctx.check(got_resp == ratings, "export-ratings", desc,
                  f"train_response.txt holds {got_resp}, ratings in container order {ratings}")
        nonfinite = False
        for name in allf:
            want = [float("%.2e" % model[k]["features"][name]) for k in order]
            nonfinite |= any(not math.isfinite(v) for v in want)
            got = read_column(out / f"train_{name}.txt")
            ctx.check(len(got) == len(want) and all(cell_ok(g, w, 0.0) for g, w in zip(got, want)),
                      "export-feature-text", dict(desc, feature_type=name[:8]),
                      f"train_{name}.txt holds {got}, features in container order {want}")
        if nonfinite:
            ctx.event("export:nonfinite_feature")
        # load with all cleaning flags off
        for names, wt in ((None, "all"), (None, None), (case["names"], case["which_type"])):
            cols = expected_columns(names, wt)
            if not cols:
                continue
            kw = {"path": out, "replace_inf": False, "impute_zero_rated_nan": False, "remove_nan": False,
                  "ret_names": True}
            if names is not None:
                kw["names"] = list(names)
            if wt is not None:
                kw["which_type"] = wt
            d = dict(desc, rows="one" if ncurves == 1 else "many", flags=flag_text((False,) * 3))
            res = None
            with ctx.no_raise("load-raises", d):
                res = IndentationRater.load_training_set(**kw)
            if res is None:
                continue
            X, y, got_names = res
            ctx.check(list(got_names) == cols, "column-names", d, f"returned {list(got_names)}, expected {cols}")
            ok = ctx.check(getattr(X, "shape", None) == (ncurves, len(cols)), "sample-shape", d,
                           f"samples shape {getattr(X, 'shape', None)}, expected {(ncurves, len(cols))}")
            ok &= ctx.check(getattr(y, "shape", None) == (ncurves,), "response-shape", d,
                            f"response shape {getattr(y, 'shape', None)} for {ncurves} exported curve(s)")
            if not ok:
                continue
            ctx.check([float(v) for v in y] == ratings, "roundtrip-ratings", d,
                      f"loaded ratings {[float(v) for v in y]}, container order {ratings}")
            for j, k in enumerate(order):
                for c, name in enumerate(cols):
                    v = model[k]["features"][name]
                    ctx.check(cell_ok(float(X[j, c]), float("%.2e" % v), 0.0), "roundtrip-feature",
                              dict(d, feature_type=name[:8]),
                              f"curve {k} {name}: loaded {float(X[j, c])!r}, feature {v!r} -> {'%.2e' % v}")
        # the exported directory is also a training set like any other: all flag combinations
        info = verify_directory(out, case["names"], case["which_type"], ctx, desc)
        if info.get("default") is not None and info["default"][1].shape[0]:
            if all(float(r) == int(r) for r in ratings):
                verify_weights(*info["default"], ctx, {"part": "weights-of-exported-set"})
            else:
                # compute_sample_weight states its domain: "Only integer ratings allowed"
                ctx.event("non_integer_ratings_no_weights")
    finally:
        if not noted:
            ctx.note_case(case, nontrivial=False, classes=["export:aborted"])
        shutil.rmtree(wd, ignore_errors=True)


#: user ratings: integers 0..10 and a few non-integers with <= 3 significant digits (save_hdf5 takes a float; the
#: exported text has 3 significant digits)
ST_RATING = st.one_of(st.integers(0, 10), st.integers(0, 10), st.sampled_from([0.4, 7.5, 2.25, 9.9]))


@st.composite
def st_export(draw):
    allf, _, conf = feature_names()
    curve = synth.st_curve(st, models=["hertz_para", "hertz_cone", "sneddon_spher_approx"],
                           noise=st.sampled_from([0.0, 1e-3, 0.01, 0.05, 0.3]), n_range=(40, 900),
                           sampling=("linear", "jitter"), wide=False)
    fit = {"model_key": st.sampled_from(FIT_MODELS), "prep": st.integers(0, len(PREPROC) - 1),
           "rating": ST_RATING}
    synthetic = st.fixed_dictionaries(dict(fit, src=st.just("synth"), curve=curve, file=st.integers(0, 1)))
    recorded = st.fixed_dictionaries(dict(fit, src=st.just("file"), name=st.sampled_from(RECORDED),
                                          idx=st.integers(0, 7)))
    again = st.fixed_dictionaries({"src": st.just("again"), "ref": st.integers(0, 4), "rating": ST_RATING})
    lo, hi = draw(st.sampled_from([(0, 0), (1, 2), (1, 2), (3, 4), (3, 4)]))
    items = [draw(st.one_of(synthetic, recorded))]
    items += draw(st.lists(st.one_of(synthetic, synthetic, recorded, again), min_size=lo, max_size=hi))
    names = draw(st.one_of(st.none(), st.lists(st.sampled_from(allf), min_size=1, max_size=6),
                           st.permutations(conf)))
    return {"kind": "export", "items": items,
            "layout_reversed": draw(st.booleans()), "names": names,
            "which_type": draw(st.sampled_from(WHICH))}


# ---------------------------------------------------------------------------

#: fixed cases that must always be part of a run (single row, all-NaN column, all zero rated ...)
def fixed_cases():
    base = {"kind": "load", "seed": 5, "mode": "signed", "ops": [], "names": None, "which_type": None,
            "fmt": "%.2e", "resp_fmt": "%.2e", "tag": 3}
    yield dict(base, resp=[0])
    yield dict(base, resp=[7], ops=[{"t": "cell", "r": 0, "c": 5, "v": "inf"}])
    yield dict(base, resp=[0, 0, 0, 0], ops=[{"t": "cell", "r": 1, "c": 5, "v": "nan"},
                                             {"t": "cell", "r": 2, "c": 5, "v": "inf"}])
    yield dict(base, resp=[0, 3, 0, 5, 3, 0], ops=[{"t": "col", "c": 9, "v": "nan"}])
    yield dict(base, resp=[2, 3, 0, 5, 3, 0, 1, 0], fmt="%.18e", resp_fmt="%d",
               ops=[{"t": "class", "k": 0, "skip": 1, "c": 4, "v": "nan"},
                    {"t": "class", "k": 3, "skip": 0, "c": 6, "v": "nan"},
                    {"t": "cell", "r": 0, "c": 4, "v": "-inf"}, {"t": "cell", "r": 4, "c": 7, "v": "inf"}],
               names=["feat_con_cp_curvature", "feat_bin_size", "feat_con_apr_sum", "feat_con_bln_slope",
                      "feat_con_apr_size", "feat_con_bln_variation"])
    one = {"kind": "export", "layout_reversed": False, "names": None, "which_type": None,
           "items": [{"src": "file", "name": "fmt-jpk-fd_spot3-0192.jpk-force", "idx": 0,
                      "model_key": "hertz_para", "prep": 1, "rating": 4}]}
    yield one
    yield dict(one, items=[dict(one["items"][0], name="fmt-jpk-fd_map2x2_extracted.jpk-force-map", idx=i,
                                rating=r) for i, r in ((3, 0), (0, 9), (2, 0), (1, 5))])


def dispatch(case, ctx):
    kind = case["kind"]
    if kind == "load":
        check_load(case, ctx)
    elif kind == "weights":
        check_weights(case, ctx)
    elif kind == "export":
        check_export(case, ctx)
    else:
        raise AssertionError(f"unknown case kind {kind}")


def run(ctx):
    feature_names()
    ctx.enumerate(fixed_cases(), dispatch, label="fixed", stop_after=10)
    ctx.hypothesis(st_load(), check_load, ctx.scale(6000, 200000), label="load")
    ctx.hypothesis(st_weights(), check_weights, ctx.scale(4000, 80000), label="weights")
    ctx.hypothesis(st_export(), check_export, ctx.scale(96, 1600), label="export")


def replay(case, ctx):
    dispatch(case, ctx)
