"""C10 — arguments are taken by value: no mutation of, or aliasing to, caller objects.

For every API taking a mutable argument: (1) deep snapshot of the argument before == after
the call; (2) after the call the caller edits the object in place: what the library stored
must not follow; (3) the caller passes the edited object again: the outcome must equal that
of a twin curve that was given fresh equal-valued objects.
"""
import copy

import numpy as np
from hypothesis import strategies as st

from vlib import fitgen, synth

PROPERTY = "C10"
SHARDS = {"quick": 8, "thorough": 16}
RULE = ("Hypothesis draws a scenario (which mutable argument: initial parameters passed / returned by "
        "get_initial_fit_parameters, preprocessing step list, option dictionary, range list, method keyword "
        "dictionary, preprocessing kwargs of fit_model, force array of the contact-point estimators, "
        "feature-name list / training-set arrays of the rater), a synthetic curve, fit settings incl. correction "
        "factor != 1, multi-pass range types and plateau search, and an in-place edit of the argument. "
        "non-trivial = the in-place edit changes a value the result depends on (the twin's two results differ); "
        "distinct = distinct case record")
ASSUMPTIONS = [
    "twin oracle: identical calls with identical values are deterministic, so curve A (same object edited in "
    "place and passed again) and twin B (fresh deep copies) must agree exactly on stored settings, hash, "
    "parameters, chi-square and columns",
    "lmfit Parameters are compared as (value, min, max, vary, expr) per parameter; arrays by bytes",
    "cases in which any optimisation was aborted by lmfit's max_nfev are not judged (lmfit 1.3.4 returns "
    "non-reproducible parameters for an aborted leastsq fit; measured) and are counted as aborted_fit_skipped",
]

PIPES = [["compute_tip_position"],
         ["compute_tip_position", "correct_tip_offset"],
         ["compute_tip_position", "correct_force_offset", "correct_tip_offset"],
         ["compute_tip_position", "correct_tip_offset", "correct_force_slope"]]
POC = ["deviation_from_baseline", "fit_constant_line", "fit_constant_polynomial", "fit_line_polynomial",
       "frechet_direct_path", "gradient_zero_crossing"]
SCENARIOS = ["params_passed", "params_returned", "pre_list", "pre_options", "range_x", "method_kws",
             "fit_pre_kwargs", "poc_array", "rater_names", "rater_arrays", "curve_attrs", "details_alias",
             "params_skipped_pass", "model_array"]


def st_case(scenario):
    @st.composite
    def _case(draw):
        curve = draw(synth.st_curve(st, models=["hertz_para", "hertz_cone", "sneddon_spher_approx"],
                                    n_range=(80, 300), with_tip=False, noise=st.sampled_from([0.0, 5e-3]), wide=False))
        curve["params"]["contact_point"] = draw(st.floats(-0.2, 0.2)) * curve["depth"]
        rt = draw(st.sampled_from(["absolute", "absolute", "relative cp", "plateau"]))
        depth, z0 = curve["depth"], curve["z0"]
        cfg = {"model_key": curve["model"], "gcf_k": draw(st.sampled_from([1.0, 0.5, 0.7, 2.0])),
               "segment": 0 if rt == "plateau" else draw(st.sampled_from([0, 1])),
               "weight_cp": draw(st.sampled_from([0, 5e-7])),
               "range_type": "absolute" if rt == "plateau" else rt,
               "range_x": ([-0.8 * depth, 0.6 * z0] if rt != "absolute" else
                           draw(st.sampled_from([[0, 0], [-0.8 * depth, 0.6 * z0]]))),
               "optimal_fit_edelta": rt == "plateau", "optimal_fit_num_samples": 8}
        edit = {"param": draw(st.sampled_from(["E", "contact_point", "baseline_vary", "geom", "cp_nm", "cp_nm",
                                               "cp_bound_nm"])),
                "factor": draw(st.sampled_from([0.5, 1.3, 2.0])),
                "pipe_a": draw(st.integers(0, len(PIPES) - 1)), "pipe_b": draw(st.integers(0, len(PIPES) - 1)),
                "poc_a": draw(st.sampled_from(POC)), "poc_b": draw(st.sampled_from(POC)),
                "strategy_b": draw(st.sampled_from(["shift", "drift"])),
                "region_b": draw(st.sampled_from(["baseline", "approach", "all"])),
                "poc_method": draw(st.sampled_from(POC)),
                "names_a": draw(st.lists(st.sampled_from(FEATS), min_size=2, max_size=5, unique=True)),
                "names_add": draw(st.sampled_from(FEATS))}
        return {"scenario": scenario, "curve": curve, "cfg": cfg, "edit": edit}
    return _case()


FEATS = ["feat_con_apr_flatness", "feat_con_apr_size", "feat_con_apr_sum", "feat_con_bln_slope",
         "feat_con_bln_variation", "feat_con_cp_curvature", "feat_con_cp_magnitude", "feat_con_idt_maxima_75perc",
         "feat_con_idt_monotony", "feat_con_idt_spike_area", "feat_con_idt_sum", "feat_con_idt_sum_75perc"]


def fit_kw(cfg):
    kw = {k: copy.deepcopy(v) for k, v in cfg.items()}
    if not kw["optimal_fit_edelta"]:
        kw.pop("optimal_fit_num_samples")
    return kw


def new_curve(case, pipe=None):
    idnt = synth.build(case["curve"])
    if pipe is not None:
        idnt.apply_preprocessing(list(pipe))
    return idnt


def result(idnt):
    s = fitgen.snapshot(idnt)
    return s


def edit_params(p, case):
    e = case["edit"]
    if e["param"] == "E":
        p["E"].value = p["E"].value * e["factor"]
    elif e["param"] == "contact_point":
        p["contact_point"].value = p["contact_point"].value + 0.03 * case["curve"]["depth"] * e["factor"]
    elif e["param"] == "cp_nm":
        # SI-scale parameters: an edit of a few nanometres is a real change
        p["contact_point"].vary = False
        p["contact_point"].value = p["contact_point"].value + 4e-9 * e["factor"]
    elif e["param"] == "cp_bound_nm":
        p["contact_point"].min = p["contact_point"].min + 3e-9 * e["factor"] if np.isfinite(p["contact_point"].min) \
            else p["contact_point"].value - 5e-9
    elif e["param"] == "baseline_vary":
        p["baseline"].vary = not p["baseline"].vary
    else:
        g = "R" if "R" in p else "alpha"
        p[g].value = p[g].value * e["factor"] if g == "R" else min(p[g].value * e["factor"], 50.0)


def same(a, b):
    """exact comparison of two snapshots; returns list of differing paths"""
    diffs = []
    for k in sorted(set(a["fp"]) | set(b["fp"])):
        if a["fp"].get(k, "<absent>") != b["fp"].get(k, "<absent>"):
            diffs.append("fit_properties[%s]" % k)
    for c in sorted(set(a["columns"]) | set(b["columns"])):
        if a["columns"].get(c) != b["columns"].get(c):
            diffs.append("column[%s]" % c)
    for k in ("preprocessing", "preprocessing_options"):
        if a[k] != b[k]:
            diffs.append(k)
    return diffs


def run_calls(ctx, desc, calls):
    """execute a list of thunks, collecting (exception type or None) per call"""
    out = []
    for fn in calls:
        with fitgen.catch() as box:
            fn()
        out.append(type(box["exc"]).__name__ if box["exc"] is not None else None)
    return out


class _Skip(Exception):
    pass


def check_case(case, ctx):
    sc = case["scenario"]
    desc = {"scenario": sc}
    handler = globals()["scenario_" + sc]
    from vlib.runner import Violation
    with fitgen.MinimizeRecorder() as rec:
        try:
            handler(case, ctx, desc)
        except Violation:
            if rec.aborted:
                # an optimisation hit lmfit's max_nfev: its result is not reproducible for identical
                # input (third-party nondeterminism), a differential verdict would be meaningless
                ctx.event("aborted_fit_skipped")
                return
            raise


def _twin(case, ctx, desc, make_arg, edit_arg, call, prep=None, stored=None, fresh_ref=True):
    """generic by-value protocol.
    make_arg() -> fresh argument object(s) as a dict; edit_arg(args) edits them in place;
    call(idnt, args) performs the library call; stored(idnt) -> value snapshot of what the
    library remembers of the argument (or None)."""
    # --- curve A: the same objects, edited in place, passed again
    a = prep(case)
    args = make_arg(a)
    before = fitgen.deep_state(args)
    with fitgen.catch() as box:
        call(a, args)
    if box["exc"] is not None:
        ctx.note_case(case, nontrivial=False, classes=[case["scenario"], "first_call_rejected"])
        return
    ctx.check(fitgen.deep_state(args) == before, "argument-mutated", desc,
              f"argument changed by the call: {_diff_state(before, fitgen.deep_state(args))}")
    first_a = result(a)
    st_before = stored(a) if stored else None
    edit_arg(args)
    after_edit = fitgen.deep_state(args)
    if stored:
        ctx.check(stored(a) == st_before, "stored-state-aliases-argument", desc,
                  "what the curve remembers changed when the caller edited the passed object in place")
    with fitgen.catch() as box_a:
        call(a, args)
    ctx.check(fitgen.deep_state(args) == after_edit, "argument-mutated", desc,
              f"argument changed by the second call: {_diff_state(after_edit, fitgen.deep_state(args))}")
    res_a = result(a)
    # --- twin B: fresh equal-valued objects for both calls
    b = prep(case)
    args_b1 = make_arg(b)
    call(b, args_b1)
    first_b = result(b)
    args_b2 = make_arg(b)
    edit_arg(args_b2)
    args_b2 = copy.deepcopy(args_b2)
    with fitgen.catch() as box_b:
        call(b, args_b2)
    res_b = result(b)
    # --- fresh curve C: only the second call, with a fresh equal-valued object ("the effect of a call depends
    # only on the argument values at the time of the call")
    c = prep(case)
    args_c = make_arg(c)
    edit_arg(args_c)
    args_c = copy.deepcopy(args_c)
    with fitgen.catch() as box_c:
        call(c, args_c)
    res_c = result(c)
    ec = type(box_c["exc"]).__name__ if box_c["exc"] else None
    ea, eb = (type(box_a["exc"]).__name__ if box_a["exc"] else None), (type(box_b["exc"]).__name__ if box_b["exc"] else None)
    if eb == ec and fresh_ref:
        dc = same(res_b, res_c)
        ctx.check(not dc, "edited-value-not-honoured", desc,
                  f"a second call with an edited (fresh, equal-valued) object differs from the same call on a fresh "
                  f"curve in {dc[:5]}")
    changed = bool(same(first_b, res_b)) or eb is not None
    ctx.note_case(case, nontrivial=changed, classes=[case["scenario"], "edit_changes_result" if changed else "edit_neutral"])
    ctx.check(not same(first_a, first_b), "twin-first-call-differs", desc,
              f"identical first calls on identical curves differ: {same(first_a, first_b)[:4]}")
    ctx.check(ea == eb, "in-place-edit-outcome-differs", desc,
              f"same object edited in place: {ea}; fresh equal-valued object: {eb}")
    d = same(res_a, res_b)
    ctx.check(not d, "in-place-edit-not-noticed", desc,
              f"passing the edited object again differs from passing a fresh equal-valued object in {d[:5]}")


def _diff_state(a, b):
    return "state before != state after" if a != b else ""


def _prep_tip(case):
    return new_curve(case, PIPES[0])


# ---- scenarios -------------------------------------------------------------------------

def scenario_params_passed(case, ctx, desc):
    cfg = case["cfg"]

    def make(idnt):
        p = fitgen.initial_from_truth(case["curve"], e_factor=1.2, cp_off=0.02)
        if case["edit"]["param"] == "cp_nm":
            p["contact_point"].set(vary=False)        # the later edit changes the value only (by a few nm)
        elif case["edit"]["param"] == "cp_bound_nm":
            p["contact_point"].set(min=p["contact_point"].value - 9e-9)   # active bound, later moved by a few nm
        return {"p": p}

    def call(idnt, args):
        idnt.fit_model(params_initial=args["p"], **fit_kw(cfg))

    _twin(case, ctx, desc, make, lambda args: edit_params(args["p"], case), call, prep=_prep_tip,
          stored=lambda i: fitgen.pstate(i.fit_properties.get("params_initial")))


def scenario_params_skipped_pass(case, ctx, desc):
    """a fit whose (last) pass is skipped because its range holds too few points leaves the passed parameters and
    what the curve remembers of them as they were; the next fit, which does not name parameters, starts from them"""
    cfg = dict(case["cfg"], optimal_fit_edelta=False)
    e = case["edit"]
    tiny = dict(cfg)
    if e["pipe_a"] % 2:
        tiny.update(range_type="relative cp", range_x=[-1e-13, 1e-13])
    else:
        tiny.update(range_type="absolute", range_x=[1.0, 1.0 + 1e-9])
    full = dict(cfg, range_type="absolute", range_x=[0, 0])
    a = _prep_tip(case)
    p = fitgen.initial_from_truth(case["curve"], e_factor=1.2, cp_off=0.02)
    if e["param"] == "cp_bound_nm":
        p["contact_point"].set(min=p["contact_point"].value - 0.1 * case["curve"]["depth"],
                               max=p["contact_point"].value + 0.1 * case["curve"]["depth"])
    before = fitgen.deep_state({"p": p})
    with fitgen.catch() as box:
        a.fit_model(params_initial=p, **fit_kw(tiny))
    skipped = box["exc"] is None and not a.fit_properties.get("success")
    ctx.note_case(case, nontrivial=bool(skipped and cfg["gcf_k"] != 1), classes=["params_skipped_pass", tiny["range_type"],
                                                                              "skipped" if skipped else "not_skipped"])
    if box["exc"] is not None:
        return
    ctx.check(fitgen.deep_state({"p": p}) == before, "argument-mutated", desc, "params_initial changed by a fit with a skipped pass")
    ctx.check(fitgen.pstate(a.get_initial_fit_parameters()) == fitgen.pstate(p), "stored-parameters-differ-from-passed", desc,
              f"after the fit the curve hands back {fitgen.pstate(a.get_initial_fit_parameters())}, passed {fitgen.pstate(p)}")
    with fitgen.catch() as box_a:
        a.fit_model(range_type="absolute", range_x=[0, 0])
    b = _prep_tip(case)
    p2 = fitgen.initial_from_truth(case["curve"], e_factor=1.2, cp_off=0.02)
    if e["param"] == "cp_bound_nm":
        p2["contact_point"].set(min=p2["contact_point"].value - 0.1 * case["curve"]["depth"],
                                max=p2["contact_point"].value + 0.1 * case["curve"]["depth"])
    with fitgen.catch() as box_b:
        b.fit_model(params_initial=p2, **fit_kw(full))
    ea, eb = (type(box_a["exc"]).__name__ if box_a["exc"] else None), (type(box_b["exc"]).__name__ if box_b["exc"] else None)
    ctx.check(ea == eb, "in-place-edit-outcome-differs", desc, f"follow-up fit: {ea}; fresh curve: {eb}")
    if ea is None and eb is None:
        d = same(result(a), result(b))
        ctx.check(not d, "edited-value-not-honoured", desc,
                  f"the fit after a skipped pass differs from the same fit on a fresh curve with the same parameters in {d[:5]}")


def scenario_model_array(case, ctx, desc):
    """model and residual functions: the abscissa / force arrays are not modified, and an array edited in place and
    passed again is evaluated like a fresh array with the same values"""
    from nanite import model as nmodel
    md = nmodel.models_available[case["cfg"]["model_key"]]
    a = synth.arrays(case["curve"])
    n_app = int(case["curve"]["n_app"])
    x = a["tip"][:n_app].copy()
    force = a["force"][:n_app].copy()
    params = fitgen.initial_from_truth(case["curve"], e_factor=1.2, cp_off=0.02)
    wcp = case["cfg"]["weight_cp"]
    ctx.note_case(case, nontrivial=True, classes=["model_array", case["cfg"]["model_key"]])
    keep_x, keep_f, keep_p = x.copy(), force.copy(), fitgen.pstate(params)
    f1 = md.model(params, x)
    r1 = md.residual(params, x, force, wcp)
    ctx.check(np.array_equal(x, keep_x) and np.array_equal(force, keep_f) and fitgen.pstate(params) == keep_p,
              "argument-mutated", desc, "model()/residual() changed their abscissa, force or parameters")
    shift = 0.07 * case["curve"]["depth"] * case["edit"]["factor"]
    x -= shift                     # in place: the same array object, other values
    force *= 1.5
    f_same, r_same = md.model(params, x), md.residual(params, x, force, wcp)
    f_new, r_new = md.model(params, x.copy()), md.residual(params, x.copy(), force.copy(), wcp)
    ctx.check(np.array_equal(f_same, f_new) and np.array_equal(r_same, r_new), "in-place-edit-not-noticed", desc,
              f"model/residual of an abscissa edited in place and passed again differ from those of a fresh equal "
              f"array by {np.max(np.abs(f_same - f_new)):.3e} / {np.max(np.abs(r_same - r_new)):.3e}")
    ctx.check(not np.array_equal(f1, f_new) or not np.array_equal(r1, r_new), "edit-without-effect", desc,
              "harness: the in-place edit did not change the model output")


def scenario_params_returned(case, ctx, desc):
    """documented workflow: get parameters, edit .value, fit - repeated on the same object"""
    cfg = case["cfg"]
    # what the curve hands out is the caller's to edit: asking again gives the stored values, as a new object
    probe = _prep_tip(case)
    probe.fit_model(params_initial=fitgen.initial_from_truth(case["curve"], e_factor=1.2, cp_off=0.02), **fit_kw(cfg))
    g1 = probe.get_initial_fit_parameters()
    want = fitgen.pstate(g1)
    edit_params(g1, case)
    g2 = probe.get_initial_fit_parameters()
    ctx.check(g2 is not g1 and fitgen.pstate(g2) == want, "stored-state-aliases-argument", desc,
              "get_initial_fit_parameters() after the caller edited the previously returned object: "
              + ("the same object is handed out again" if g2 is g1 else f"{fitgen.pstate(g2)} instead of {want}"))

    def make(idnt):
        p = idnt.get_initial_fit_parameters(model_key=cfg["model_key"])
        return {"p": p}

    def call(idnt, args):
        idnt.fit_model(params_initial=args["p"], **fit_kw(cfg))

    def call_returned(idnt, args):
        idnt.fit_model(params_initial=args["p"], **fit_kw(cfg))
        # the object handed back after a fit is what the workflow edits next
        args["p"] = idnt.get_initial_fit_parameters()

    _twin(case, ctx, desc, make, lambda args: edit_params(args["p"], case), call_returned if case["edit"]["factor"] != 0.5 else call,
          prep=_prep_tip, stored=lambda i: fitgen.pstate(i.fit_properties.get("params_initial")))


def scenario_pre_list(case, ctx, desc):
    e = case["edit"]

    def make(idnt):
        return {"steps": list(PIPES[e["pipe_a"]]), "opts": {}}

    def edit(args):
        new = PIPES[e["pipe_b"]]
        args["steps"][:] = list(new)

    def call(idnt, args):
        idnt.apply_preprocessing(args["steps"], args["opts"])

    _twin(case, ctx, desc, make, edit, call, prep=lambda c: new_curve(c),
          stored=lambda i: (copy.deepcopy(i.preprocessing), copy.deepcopy(i.fit_properties.get("preprocessing"))))


def scenario_pre_options(case, ctx, desc):
    e = case["edit"]
    steps = PIPES[3]

    def make(idnt):
        return {"steps": list(steps), "opts": {"correct_tip_offset": {"method": e["poc_a"]},
                                               "correct_force_slope": {"region": "baseline", "strategy": "shift"}}}

    def edit(args):
        args["opts"]["correct_tip_offset"]["method"] = e["poc_b"]
        args["opts"]["correct_force_slope"]["strategy"] = e["strategy_b"]
        args["opts"]["correct_force_slope"]["region"] = e["region_b"]

    def call(idnt, args):
        # (details requested in some cases: the step keyword dictionaries then receive `ret_details`)
        idnt.apply_preprocessing(args["steps"], args["opts"], ret_details=e["pipe_a"] % 2 == 0)

    _twin(case, ctx, desc, make, edit, call, prep=lambda c: new_curve(c),
          stored=lambda i: (copy.deepcopy(i.preprocessing_options),
                            copy.deepcopy(i.fit_properties.get("preprocessing_options"))))


def scenario_range_x(case, ctx, desc):
    cfg = dict(case["cfg"])
    depth, z0 = case["curve"]["depth"], case["curve"]["z0"]

    def make(idnt):
        return {"r": [-0.8 * depth, 0.6 * z0]}

    def edit(args):
        args["r"][0] = -0.4 * depth * case["edit"]["factor"]
        if cfg["optimal_fit_edelta"]:
            args["r"][1] = 0.3 * z0

    def call(idnt, args):
        kw = fit_kw(cfg)
        kw["range_x"] = args["r"]
        idnt.fit_model(**kw)

    _twin(case, ctx, desc, make, edit, call, prep=_prep_tip,
          stored=lambda i: copy.deepcopy(list(i.fit_properties.get("range_x", []))))


def scenario_method_kws(case, ctx, desc):
    cfg = dict(case["cfg"])

    def make(idnt):
        return {"kws": {"ftol": 1e-10}}

    def edit(args):
        args["kws"]["ftol"] = 1e-2
        args["kws"]["xtol"] = 1e-2

    def call(idnt, args):
        idnt.fit_model(method="leastsq", method_kws=args["kws"], **fit_kw(cfg))

    _twin(case, ctx, desc, make, edit, call, prep=_prep_tip,
          stored=lambda i: copy.deepcopy(i.fit_properties.get("method_kws")))


def scenario_fit_pre_kwargs(case, ctx, desc):
    e = case["edit"]
    cfg = dict(case["cfg"])
    cfg.update(optimal_fit_edelta=False, range_type="absolute", range_x=[0, 0])

    def make(idnt):
        return {"steps": list(PIPES[3]), "opts": {"correct_tip_offset": {"method": e["poc_a"]},
                                                  "correct_force_slope": {"region": "baseline", "strategy": "shift"}}}

    def edit(args):
        args["opts"]["correct_tip_offset"]["method"] = e["poc_b"]
        args["opts"]["correct_force_slope"]["region"] = e["region_b"]
        if e["pipe_b"] % 2:
            args["steps"].remove("correct_force_slope")
            args["opts"].pop("correct_force_slope")

    def call(idnt, args):
        idnt.fit_model(preprocessing=args["steps"], preprocessing_options=args["opts"], **fit_kw(cfg))

    # (no fresh-curve reference here: the initial parameters are not passed, so the guess made from the data of
    # the first pipeline is remembered - documented persistence of unspecified settings)
    _twin(case, ctx, desc, make, edit, call, prep=lambda c: new_curve(c), fresh_ref=False,
          stored=lambda i: (copy.deepcopy(i.preprocessing), copy.deepcopy(i.preprocessing_options),
                            copy.deepcopy(i.fit_properties.get("preprocessing")),
                            copy.deepcopy(i.fit_properties.get("preprocessing_options"))))


def scenario_poc_array(case, ctx, desc):
    from nanite import poc
    a = synth.arrays(case["curve"])
    force = a["force"].copy()
    keep = force.copy()
    m = case["edit"]["poc_method"]
    ctx.note_case(case, nontrivial=True, classes=["poc_array", m])
    desc = dict(desc, method=m)
    with fitgen.catch() as box:
        r1 = poc.compute_poc(force, m)
        r2 = poc.compute_poc(force, m, ret_details=True)
    if box["exc"] is not None:
        ctx.event("poc_raised_" + type(box["exc"]).__name__)
    ctx.check(np.array_equal(force, keep), "argument-mutated", desc, f"compute_poc({m}) modified the force array")
    idnt = new_curve(case)
    raw = {c: idnt[c].copy() for c in idnt.columns}
    with fitgen.catch():
        idnt.estimate_contact_point_index(method=m)
    ctx.check(all(np.array_equal(idnt[c], raw[c]) for c in raw), "argument-mutated", desc,
              "estimate_contact_point_index changed the curve's columns")
    del r1, r2


def _arrays_in(obj):
    if isinstance(obj, np.ndarray):
        yield obj
    elif isinstance(obj, dict):
        for v in obj.values():
            yield from _arrays_in(v)
    elif isinstance(obj, (list, tuple)):
        for v in obj:
            yield from _arrays_in(v)


def scenario_details_alias(case, ctx, desc):
    """objects returned by the library (contact-point / preprocessing details) are the caller's to edit: editing
    them in place must not reach the force array that was passed in nor the curve's columns"""
    from nanite import poc
    m = case["edit"]["poc_method"]
    a = synth.arrays(case["curve"])
    force = a["force"].copy()
    keep = force.copy()
    ctx.note_case(case, nontrivial=True, classes=["details_alias", m])
    desc = dict(desc, method=m)
    with fitgen.catch() as box:
        idx, details = poc.compute_poc(force, m, ret_details=True)
    if box["exc"] is None:
        for arr in _arrays_in(details):
            if arr.flags.writeable and arr.dtype.kind == "f":
                arr += 1.0
        ctx.check(np.array_equal(force, keep), "returned-object-aliases-argument", desc,
                  f"editing the details returned by compute_poc({m}, ret_details=True) changed the caller's force array")
    steps = list(PIPES[2])
    idnt = new_curve(case)
    with fitgen.catch() as box:
        details = idnt.apply_preprocessing(steps, {"correct_tip_offset": {"method": m}}, ret_details=True)
    if box["exc"] is None and details:
        cols = {c: idnt[c].tobytes() for c in idnt.columns}
        for arr in _arrays_in(details):
            if arr.flags.writeable and arr.dtype.kind == "f":
                arr *= 3.0
        ctx.check(all(idnt[c].tobytes() == cols[c] for c in cols), "returned-object-aliases-argument", desc,
                  "editing the details returned by apply_preprocessing(ret_details=True) changed the curve's columns")


def scenario_curve_attrs(case, ctx, desc):
    """idnt.preprocessing / idnt.preprocessing_options are handed out by the curve; the caller edits them in
    place and passes them again (or re-applies): same outcome as for fresh equal-valued objects"""
    e = case["edit"]

    def make(idnt):
        idnt.apply_preprocessing(list(PIPES[e["pipe_a"] % 3]), {"correct_tip_offset": {"method": e["poc_a"]}}
                                 if "correct_tip_offset" in PIPES[e["pipe_a"] % 3] else {})
        return {"steps": idnt.preprocessing, "opts": idnt.preprocessing_options}

    def edit(args):
        if "correct_tip_offset" not in args["steps"]:
            args["steps"].append("correct_tip_offset")
        args["opts"].setdefault("correct_tip_offset", {})["method"] = e["poc_b"]
        if "correct_force_offset" not in args["steps"]:
            args["steps"].insert(1, "correct_force_offset")

    def call(idnt, args):
        idnt.apply_preprocessing(args["steps"], args["opts"])

    # editing the handed-out objects must not reach what the curve stores in its fit properties
    _twin(case, ctx, desc, make, edit, call, prep=lambda c: new_curve(c),
          stored=lambda i: (copy.deepcopy(i.fit_properties.get("preprocessing")),
                            copy.deepcopy(i.fit_properties.get("preprocessing_options"))))


def _fitted(case):
    idnt = _prep_tip(case)
    cfg = dict(case["cfg"])
    cfg.update(optimal_fit_edelta=False, range_type="absolute", range_x=[0, 0])
    idnt.fit_model(params_initial=fitgen.initial_from_truth(case["curve"], e_factor=1.1), **fit_kw(cfg))
    return idnt


def scenario_rater_names(case, ctx, desc):
    e = case["edit"]

    def make(idnt):
        return {"names": list(e["names_a"])}

    def edit(args):
        if e["names_add"] in args["names"]:
            args["names"].remove(e["names_add"])
        else:
            args["names"].append(e["names_add"])

    ratings = {}

    def call(idnt, args):
        ratings[id(idnt)] = idnt.rate_quality(regressor="Decision Tree", training_set="zef18", names=args["names"])

    def res(i):
        return i.get_rating_parameters()

    # custom twin: rating value instead of fit snapshot
    a = _fitted(case)
    args = make(a)
    before = fitgen.deep_state(args)
    call(a, args)
    ctx.check(fitgen.deep_state(args) == before, "argument-mutated", desc, "names list changed by rate_quality")
    stored_names = copy.deepcopy(res(a)["Feature names"])
    edit(args)
    ctx.check(res(a)["Feature names"] == stored_names, "stored-state-aliases-argument", desc,
              "cached rating's feature names follow the caller's in-place edit")
    call(a, args)
    r_a = ratings[id(a)]
    b = _fitted(case)
    call(b, make(b))
    r_b1 = ratings[id(b)]
    args2 = make(b)
    edit(args2)
    call(b, copy.deepcopy(args2))
    r_b = ratings[id(b)]
    ctx.note_case(case, nontrivial=bool(r_b != r_b1), classes=["rater_names", "edit_changes_result" if r_b != r_b1 else "edit_neutral"])
    ctx.check(r_a == r_b, "in-place-edit-not-noticed", desc,
              f"rating with the edited names list passed again: {r_a!r}; with a fresh equal list: {r_b!r}")


def scenario_rater_arrays(case, ctx, desc):
    from nanite.rate import IndentationRater, get_rater
    rng = np.random.RandomState(case["curve"]["noise_seed"])
    names = sorted(case["edit"]["names_a"])
    X = rng.uniform(0, 1, size=(40, len(names)))
    y = rng.randint(0, 11, size=40).astype(float)
    keepX, keepy, keepn = X.copy(), y.copy(), list(names)
    ctx.note_case(case, nontrivial=True, classes=["rater_arrays"])
    reg = ["Decision Tree", "SVR (RBF kernel)", "SVR (linear kernel)", "Extra Trees"][case["edit"]["pipe_a"] % 4]
    rater = get_rater(reg, training_set=(X, y), names=names)
    S = rng.uniform(0, 1, size=(3, len(names)))
    keepS = S.copy()
    rater.rate(samples=S)
    w = IndentationRater.compute_sample_weight(X, y)
    ctx.check(np.array_equal(X, keepX) and np.array_equal(y, keepy) and names == keepn and np.array_equal(S, keepS),
              "argument-mutated", dict(desc, regressor=reg), "rater modified training-set arrays, names or samples")
    # the same through rate_quality with an in-memory training set
    idq = _fitted(case)
    idq.rate_quality(regressor=reg, training_set=(X, y), names=names)
    ctx.check(np.array_equal(X, keepX) and np.array_equal(y, keepy), "argument-mutated", dict(desc, regressor=reg),
              "rate_quality modified the in-memory training set")
    del w
    # the caller edits the SAME arrays in place and passes them again: as for fresh equal-valued arrays
    y[:] = 10 - y
    X *= 0.5
    with ctx.no_raise("raises", dict(desc, regressor=reg)) as guard:
        r_same = np.array(get_rater(reg, training_set=(X, y), names=names).rate(samples=S), dtype=float)
        r_new = np.array(get_rater(reg, training_set=(X.copy(), y.copy()), names=list(names)).rate(samples=S.copy()),
                         dtype=float)
        q_same = idq.rate_quality(regressor=reg, training_set=(X, y), names=names)
        q_new = _fitted(case).rate_quality(regressor=reg, training_set=(X.copy(), y.copy()), names=list(names))
    if guard.ok:
        ctx.check(np.array_equal(r_same, r_new, equal_nan=True), "in-place-edit-not-noticed", dict(desc, regressor=reg),
                  f"get_rater with the training arrays edited in place and passed again rates {r_same.tolist()}, with fresh "
                  f"equal arrays {r_new.tolist()}")
        ctx.check(q_same == q_new, "in-place-edit-not-noticed", dict(desc, regressor=reg, via="rate_quality"),
                  f"rate_quality with the edited training arrays passed again: {q_same!r}; fresh curve and arrays: {q_new!r}")
    idnt = _fitted(case)
    snap = fitgen.snapshot(idnt)
    rater.rate(datasets=idnt)
    ctx.check(not same(snap, fitgen.snapshot(idnt)), "argument-mutated", desc, "rate(datasets=curve) changed the curve")


def run(ctx):
    n = max(1, ctx.scale(1000, 30000) // len(SCENARIOS))
    for sc in SCENARIOS:
        ctx.hypothesis(st_case(sc), check_case, n, label=sc)


def replay(case, ctx):
    check_case(case, ctx)
