"""C03 — fit results depend only on data and current settings, not on history.

Generated call histories (lists of op records, shrunk as one value) over the operation
alphabet of the property; after every step a fresh-object differential, a no-stale-results
invariant and an idempotence check (zero optimisations on an unchanged refit, observed by
wrapping lmfit.minimize from the harness).
"""
import copy

import numpy as np
from hypothesis import strategies as st

from vlib import fitgen, synth

PROPERTY = "C03"
SHARDS = {"quick": 8, "thorough": 16}
RULE = ("Hypothesis draws a synthetic curve and a history of 3-14 (thorough: up to 30) operations over "
        "{apply_preprocessing(valid / invalid request), fit_model(**subset of settings incl. preprocessing "
        "kwargs, fresh parameter objects, invalid values), fit_properties[k] = v for the 13 fit-setting keys, "
        "rate_quality(...), compute_emodulus_mindelta(), get_initial_fit_parameters() + in-place edit, "
        "fit_model() without arguments, repeat of the previous operation}. non-trivial = the history contains "
        ">= 2 successful fits with different hashes and >= 1 of {failed call, direct setting edit, in-place "
        "edit}; distinct = distinct case record")
ASSUMPTIONS = [
    "fresh-object oracle: a new curve from the same raw arrays, the stored preprocessing applied once, "
    "fit_model(**stored settings) called once; hash / range mask / success compared exactly, floats with "
    "rtol 1e-9 (identical inputs go through deterministic optimisers; the bit-identical fraction is reported)",
    "fits aborted by lmfit's max_nfev are not compared (non-reproducible leftovers in lmfit 1.3.4); method_kws "
    "is restricted to options that do not abort the optimiser",
    "columns are compared only while the curve claims a current fit ('hash' in fit_properties)",
    "the two preprocessing records of fit_properties are exercised through apply_preprocessing / fit_model, "
    "not through direct edits (they are what the object believes was applied)",
]

PIPES = [["compute_tip_position"],
         ["compute_tip_position", "correct_tip_offset"],
         ["compute_tip_position", "correct_force_offset", "correct_tip_offset"],
         ["compute_tip_position", "correct_tip_offset", "correct_force_slope", "correct_force_offset"],
         ["compute_tip_position", "correct_split_approach_retract", "correct_tip_offset"]]
BAD_PIPES = [["correct_tip_offset"], ["compute_tip_position", "bogus"], ["correct_force_slope", "compute_tip_position"]]
MODELS = ["hertz_para", "hertz_cone", "sneddon_spher_approx", "hertz_pyr3s"]
EDIT_KEYS = ["model_key", "optimal_fit_edelta", "optimal_fit_num_samples", "params_initial", "range_type",
             "range_x", "segment", "weight_cp", "gcf_k", "x_axis", "y_axis", "method", "method_kws"]


def st_value(key, depth, z0):
    """valid (mostly) and invalid values per setting key; ('PI', spec) stands for a parameter object"""
    if key == "model_key":
        return st.sampled_from(MODELS * 3 + ["no_such_model"])
    if key == "optimal_fit_edelta":
        return st.sampled_from([False, False, True])
    if key == "optimal_fit_num_samples":
        return st.integers(7, 10)
    if key == "range_type":
        return st.sampled_from(["absolute"] * 5 + ["relative cp"] * 4 + ["relative"])
    if key == "range_x":
        # few distinct bounds, so that successive intervals often share one bound (the plateau search treats
        # the lower bound as a don't-care, the upper one not)
        pairs = st.tuples(st.sampled_from([-0.8 * depth, -0.5 * depth]), st.sampled_from([0.5 * z0, 0.8 * z0, "inf"]))
        return st.one_of(pairs.map(list), pairs.map(list), pairs.map(list), pairs.map(lambda t: [t[1], t[0]]),
                         pairs.map(list), pairs.map(list), st.sampled_from([[0, 0], [0, 0], ["nan", 0.5 * z0]]),
                         # an interval outside the data: too few points, the fit ends unsuccessful without raising
                         st.just([10 * z0, 11 * z0]))
    if key == "segment":
        return st.sampled_from([0, 0, 0, 1, 1, "approach", "retract", 0, 1, 0.5])
    if key == "weight_cp":
        return st.sampled_from([0, False, 1e-7, 5e-7, 2e-6])
    if key == "gcf_k":
        return st.sampled_from([1.0, 1.0, 0.5, 0.8, 2.0])
    if key == "x_axis":
        return st.sampled_from(["tip position"] * 8 + ["height (measured)", "nope"])
    if key == "y_axis":
        return st.sampled_from(["force"] * 9 + ["nope"])
    if key == "method":
        return st.sampled_from(["leastsq"] * 6 + ["nelder"] * 3 + ["no_such_method"])
    if key == "method_kws":
        # (also the same keyword dictionary with its keys in the other order: an equal value)
        return st.sampled_from([{}, {}, {"ftol": 1e-10}, {"xtol": 1e-10, "ftol": 1e-10}, {"ftol": 1e-10, "xtol": 1e-10},
                                {"xtol": 1e-10, "ftol": 1e-10}, {"ftol": 1e-10, "xtol": 1e-10}])
    if key == "params_initial":
        return st.fixed_dictionaries({"E": st.floats(2.5, 4.5).map(lambda e: 10 ** e),
                                      "cp_frac": st.floats(-0.05, 0.05),
                                      "fix_baseline": st.booleans(),
                                      "none": st.sampled_from([False, False, False, True])})
    raise KeyError(key)


@st.composite
def st_case(draw, max_ops=14):
    curve = draw(synth.st_curve(st, models=["hertz_para", "hertz_cone", "sneddon_spher_approx"], n_range=(90, 260),
                                with_tip=False, noise=st.sampled_from([1e-3, 1e-2]), wide=False))
    curve["params"]["contact_point"] = draw(st.floats(-0.2, 0.2)) * curve["depth"]
    curve["params"]["baseline"] = 0.0
    depth, z0 = curve["depth"], curve["z0"]
    ops = [{"op": "pre", "steps": PIPES[draw(st.integers(0, 2))], "opts": {}}]
    for _ in range(draw(st.integers(3, max_ops))):
        t = draw(st.sampled_from(["fit", "fit", "fit", "fit", "edit", "edit", "edit", "pre", "pre_bad", "refit",
                                  "refit", "rate", "emod", "getparams_edit", "repeat", "fitpre", "params_attr",
                                  "plateau_range", "plateau_range", "range_nudge", "pre_details", "dict_reorder", "pre_held"]))
        if t == "params_attr":
            ops.append({"op": "params_attr", "attr": draw(st.sampled_from(["vary", "min", "max", "value", "expr", "fix_then_expr"])),
                        "name": draw(st.sampled_from(["E", "contact_point", "baseline"])),
                        "via": draw(st.sampled_from(["fit", "edit"]))})
            continue
        if t == "dict_reorder":
            ops.append({"op": "dict_reorder", "which": draw(st.sampled_from(["method_kws", "pre_options"]))})
            continue
        if t == "pre_details":
            ops.append({"op": "pre_details"})
            continue
        if t == "pre_held":
            ops.append({"op": "pre_held", "method": draw(st.sampled_from(["fit_constant_line", "gradient_zero_crossing",
                                                                          "frechet_direct_path"])),
                        "extend": draw(st.booleans())})
            continue
        if t == "range_nudge":
            # a second request whose interval differs by a few nm only
            ops.append({"op": "range_nudge", "shift": draw(st.floats(0.5e-9, 9e-9)) * draw(st.sampled_from([1, -1])),
                        "via": draw(st.sampled_from(["fit", "edit"]))})
            continue
        if t == "plateau_range":
            # the orders the property names: range edits while the plateau search is on
            ops.append({"op": "fit", "kw": {"optimal_fit_edelta": True, "optimal_fit_num_samples": draw(st.integers(7, 9)),
                                            "range_type": "absolute", "segment": 0,
                                            "range_x": draw(st_value("range_x", depth, z0))}})
            for _ in range(draw(st.integers(1, 2))):
                how = draw(st.sampled_from(["fit", "edit"]))
                v = draw(st_value("range_x", depth, z0))
                ops.append({"op": "fit", "kw": {"range_x": v}} if how == "fit" else {"op": "edit", "key": "range_x", "value": v})
            continue
        if t in ("fit", "fitpre"):
            keys = draw(st.lists(st.sampled_from(EDIT_KEYS), min_size=0, max_size=4, unique=True))
            kw = {k: draw(st_value(k, depth, z0)) for k in keys}
            op = {"op": "fit", "kw": kw}
            if t == "fitpre":
                op["pre"] = draw(st.sampled_from(PIPES + BAD_PIPES))
                if draw(st.booleans()):
                    op["pre_opts"] = draw(st.sampled_from([{}, {"correct_tip_offset": {"method": "fit_constant_line"}},
                                                           {"correct_tip_offset": {"method": "nope"}},
                                                           {"correct_tip_offset": {"metod": "fit_constant_line"}}]))
            ops.append(op)
        elif t == "edit":
            k = draw(st.sampled_from(EDIT_KEYS))
            ops.append({"op": "edit", "key": k, "value": draw(st_value(k, depth, z0))})
        elif t == "pre":
            two = {"correct_tip_offset": {"method": "frechet_direct_path"},
                   "correct_force_slope": {"region": "baseline", "strategy": "shift"}}
            ops.append({"op": "pre", "steps": draw(st.sampled_from(PIPES)),
                        "opts": draw(st.sampled_from([{}, {}, {"correct_tip_offset": {"method": "frechet_direct_path"}},
                                                      two, dict(reversed(list(two.items()))),
                                                      {"correct_force_slope": {"strategy": "shift", "region": "baseline"},
                                                       "correct_tip_offset": {"method": "frechet_direct_path"}}]))})
        elif t == "pre_bad":
            ops.append({"op": "pre", "steps": draw(st.sampled_from(BAD_PIPES + PIPES[1:3])),
                        "opts": draw(st.sampled_from([{}, {"correct_tip_offset": {"method": "nope"}},
                                                      # an option keyword the step does not have (TypeError)
                                                      {"correct_tip_offset": {"metod": "fit_constant_line"}},
                                                      {"correct_force_slope": {"region": "baseline", "strategy": "shift",
                                                                               "extra": 1}}]))})
        elif t == "rate":
            ops.append({"op": "rate", "regressor": draw(st.sampled_from(["Decision Tree", "none"]))})
        elif t == "getparams_edit":
            ops.append({"op": "getparams_edit", "factor": draw(st.sampled_from([0.5, 2.0, 1.3]))})
        else:
            ops.append({"op": t})
    return {"curve": curve, "ops": ops}


def realize(key, value, idnt, curve):
    """turn a JSON value into the Python object handed to the library"""
    if key == "range_x":
        return [float(v) if isinstance(v, str) else v for v in value]
    if key == "params_initial":
        if value["none"]:
            return None
        mk = idnt.fit_properties.get("model_key", "hertz_para")
        if mk not in MODELS:
            mk = "hertz_para"
        p = fitgen.make_params(mk, {"E": value["E"],
                                    "contact_point": curve["params"]["contact_point"] + value["cp_frac"] * curve["depth"]})
        if value["fix_baseline"]:
            p["baseline"].set(vary=False)
        return p
    return copy.deepcopy(value)


def do_op(idnt, op, curve):
    """execute one operation; returns exception or None"""
    kind = op["op"]
    with fitgen.catch() as box:
        if kind == "pre":
            idnt.apply_preprocessing(copy.deepcopy(op["steps"]), copy.deepcopy(op["opts"]))
        elif kind == "fit":
            kw = {}
            # model_key first so that the parameter object matches the model of this call
            for k in sorted(op["kw"], key=lambda k: (k != "model_key", k)):
                if k == "params_initial":
                    mk = kw.get("model_key", idnt.fit_properties.get("model_key", "hertz_para"))
                    v = op["kw"][k]
                    if v["none"]:
                        kw[k] = None
                    else:
                        p = fitgen.make_params(mk if mk in MODELS else "hertz_para",
                                               {"E": v["E"], "contact_point": curve["params"]["contact_point"]
                                                + v["cp_frac"] * curve["depth"]})
                        if v["fix_baseline"]:
                            p["baseline"].set(vary=False)
                        kw[k] = p
                else:
                    kw[k] = realize(k, op["kw"][k], idnt, curve)
            if "pre" in op:
                kw["preprocessing"] = copy.deepcopy(op["pre"])
            if "pre_opts" in op:
                kw["preprocessing_options"] = copy.deepcopy(op["pre_opts"])
            idnt.fit_model(**kw)
        elif kind == "edit":
            idnt.fit_properties[op["key"]] = realize(op["key"], op["value"], idnt, curve)
        elif kind == "refit":
            idnt.fit_model()
        elif kind == "rate":
            idnt.rate_quality(regressor=op["regressor"])
        elif kind == "emod":
            idnt.compute_emodulus_mindelta()
        elif kind == "params_attr":
            # change exactly one attribute of one stored initial parameter and hand the set back
            p = idnt.get_initial_fit_parameters()
            par = p[op["name"]] if op["name"] in p else p[list(p)[0]]
            if op["attr"] == "vary":
                par.set(vary=not par.vary)
            elif op["attr"] == "min":
                par.set(min=par.value - abs(par.value) * 0.9 - 1e-7)
            elif op["attr"] == "max":
                par.set(max=par.value + abs(par.value) * 3 + 1e-7)
            elif op["attr"] == "value":
                par.set(value=par.value * 1.2 + 1e-9)
            elif op["attr"] == "fix_then_expr":
                # first request: parameter fixed; second request differs in the expression only (same value)
                name = op["name"] if op["name"] in p and op["name"] != "E" else "baseline"
                v = float(p[name].value)
                p[name].set(vary=False)
                idnt.fit_model(params_initial=p)
                p = idnt.get_initial_fit_parameters()
                p[name].set(expr="%r + 0*E" % v)
            else:
                p["baseline"].set(expr="0*E")
            if op["via"] == "fit":
                idnt.fit_model(params_initial=p)
            else:
                idnt.fit_properties["params_initial"] = p
        elif kind == "dict_reorder":
            # an equal dictionary whose keys come in another order is the same setting
            if op["which"] == "method_kws":
                idnt.fit_model(method="leastsq", method_kws={"ftol": 1e-10, "xtol": 1e-10})
                idnt.fit_model(method_kws={"xtol": 1e-10, "ftol": 1e-10})
            else:
                steps = ["compute_tip_position", "correct_tip_offset", "correct_force_slope"]
                o1 = {"correct_tip_offset": {"method": "deviation_from_baseline"},
                      "correct_force_slope": {"region": "baseline", "strategy": "shift"}}
                o2 = {"correct_force_slope": {"strategy": "shift", "region": "baseline"},
                      "correct_tip_offset": {"method": "deviation_from_baseline"}}
                idnt.fit_model(preprocessing=steps, preprocessing_options=o1)
                idnt.fit_model(preprocessing=list(steps), preprocessing_options=o2)
        elif kind == "pre_held":
            # the caller keeps ONE step list and ONE options dictionary, applies them, edits both in place and applies
            # them again (no fit in between), then fits
            steps = ["compute_tip_position", "correct_tip_offset"]
            opts = {"correct_tip_offset": {"method": "deviation_from_baseline"}}
            idnt.apply_preprocessing(steps, opts)
            opts["correct_tip_offset"]["method"] = op["method"]
            if op["extend"]:
                steps.append("correct_force_offset")
            idnt.apply_preprocessing(steps, opts)
            idnt.fit_model()
        elif kind == "pre_details":
            # the same pipeline again, this time asking for the details of the steps
            idnt.apply_preprocessing(copy.deepcopy(idnt.preprocessing), copy.deepcopy(idnt.preprocessing_options),
                                     ret_details=True)
        elif kind == "range_nudge":
            r = list(idnt.fit_properties.get("range_x", [0, 0]))
            if r[0] == r[1] or not np.all(np.isfinite(r)):
                r = [-0.7 * curve["depth"], 0.6 * curve["z0"]]
            r = [float(r[0]) + op["shift"], float(r[1]) + op["shift"]]
            if op["via"] == "fit":
                idnt.fit_model(range_x=r)
            else:
                idnt.fit_properties["range_x"] = r
        elif kind == "getparams_edit":
            p = idnt.get_initial_fit_parameters()
            p["E"].value = p["E"].value * op["factor"] if "E" in p else 1.0
            p["contact_point"].value = p["contact_point"].value + 1e-8
    return box["exc"]


def stored_settings(idnt):
    from nanite.fit import FP_DEFAULT
    fp = idnt.fit_properties
    return {k: copy.deepcopy(fp[k]) for k in FP_DEFAULT if k in fp}


def fresh_replay(curve, settings):
    """fresh curve, stored preprocessing once, stored fit settings once"""
    f = synth.build(curve)
    exc = None
    with fitgen.catch() as box:
        if "preprocessing" in settings:
            f.apply_preprocessing(copy.deepcopy(settings["preprocessing"]),
                                  copy.deepcopy(settings.get("preprocessing_options", {})))
        kw = {k: copy.deepcopy(v) for k, v in settings.items() if k not in ("preprocessing", "preprocessing_options")}
        f.fit_model(**kw)
    exc = box["exc"]
    return f, exc


def close(a, b, rtol=1e-9):
    a, b = np.asarray(a, float), np.asarray(b, float)
    if a.shape != b.shape:
        return False
    scale = np.nanmax(np.abs(b)) if b.size and np.any(np.isfinite(b)) else 0.0
    return bool(np.all(np.isnan(a) == np.isnan(b)) and
                np.all(np.abs(np.nan_to_num(a) - np.nan_to_num(b)) <= rtol * np.abs(np.nan_to_num(b)) + rtol * 1e-3 * scale))


def compare(ctx, desc, idnt, f, step):
    a, b = idnt.fit_properties, f.fit_properties
    diffs = []
    exact = True
    for k in sorted(set(a) | set(b)):
        if k in ("optimal_fit_E_array", "optimal_fit_delta_array") and not a.get("optimal_fit_edelta"):
            continue   # scan arrays of compute_emodulus_mindelta are compared separately
        if (k in a) != (k in b):
            diffs.append(f"key {k} only in {'history' if k in a else 'fresh'} curve")
            continue
        va, vb = a[k], b[k]
        if k.startswith("params"):
            sa, sb = fitgen.pstate(va), fitgen.pstate(vb)
            if sa != sb:
                exact = False
                for name in sb:
                    x, y = sa[name], sb[name]
                    if x[1:] != y[1:] or not close(x[0], y[0]):
                        diffs.append(f"{k}[{name}] {x} vs {y}")
        elif isinstance(va, np.ndarray) or isinstance(vb, np.ndarray):
            if not np.array_equal(va, vb, equal_nan=True):
                exact = False
                if not close(va, vb, 1e-7):
                    diffs.append(f"{k} arrays differ")
        elif isinstance(va, float) and isinstance(vb, float) and k in ("chi_sqr", "xmin", "xmax", "optimal_fit_delta"):
            if va != vb:
                exact = False
                if not close(va, vb, 1e-7 if k == "chi_sqr" else 1e-9):
                    diffs.append(f"{k} {va!r} vs {vb!r}")
        elif va != vb:
            diffs.append(f"{k} {va!r} vs {vb!r}")
    for c in ("fit", "fit residuals", "fit range"):
        if (c in idnt) != (c in f):
            diffs.append(f"column {c} only in one curve")
        elif c in idnt:
            if idnt[c].tobytes() != f[c].tobytes():
                exact = False
                if c == "fit range" or not close(idnt[c], f[c], 1e-7):
                    diffs.append(f"column '{c}' differs")
    for c in sorted(set(idnt.columns) | set(f.columns)):
        if c in ("fit", "fit residuals", "fit range"):
            continue
        if c not in idnt or c not in f or idnt[c].tobytes() != f[c].tobytes():
            diffs.append(f"data column '{c}' differs")
    ctx.event("compared_bit_identical" if exact and not diffs else "compared_within_tolerance")
    ctx.check(not diffs, "differs-from-fresh-curve", desc, f"after step {step}: " + "; ".join(diffs[:6]))


def check_case(case, ctx, ):
    from nanite.fit import FP_RESULTS
    curve = case["curve"]
    idnt = synth.build(curve)
    desc = {}
    hashes = set()
    special = False
    last = None
    seen = set()
    prev_kind, prev_exc, prev_op = None, False, None
    with fitgen.MinimizeRecorder() as rec:
        for n, op in enumerate(case["ops"]):
            if op["op"] == "repeat":
                if last is None:
                    continue
                op = last
            before_calls = len(rec.calls)
            opts_before = copy.deepcopy(idnt.preprocessing_options)
            exc = do_op(idnt, op, curve)
            last = op
            if exc is not None or op["op"] in ("edit", "getparams_edit", "params_attr", "range_nudge", "dict_reorder", "pre_held"):
                special = True
            # class histogram of the orders the property names
            fpn = idnt.fit_properties
            if op["op"] in ("edit", "fit") and fpn.get("optimal_fit_edelta") and (
                    op.get("key") == "range_x" or "range_x" in op.get("kw", {})):
                seen.add("range_x_under_plateau")
            if prev_kind == "gcf" and op["op"] in ("edit", "fit", "pre"):
                seen.add("gcf_k_then_another_change")
            if prev_exc and op is prev_op:
                seen.add("failure_then_retry")
            prev_kind = "gcf" if (op.get("key") == "gcf_k" or "gcf_k" in op.get("kw", {})) else "other"
            prev_exc, prev_op = exc is not None, op
            if rec.aborted:
                ctx.note_case(case, nontrivial=False, classes=["aborted_fit_skipped"])
                return
            fp = idnt.fit_properties
            opdesc = dict(desc, op=op["op"] + (":" + op["key"] if op["op"] == "edit" else ""))
            # ---- what was requested is what is stored (read-after-write of the settings)
            if exc is None and op["op"] in ("edit", "fit"):
                req = {op["key"]: op["value"]} if op["op"] == "edit" else dict(op["kw"])
                for k, v in req.items():
                    if k == "params_initial":
                        continue
                    want = realize(k, v, idnt, curve)
                    got = fp.get(k, "<absent>")
                    if k == "segment":
                        want = {"approach": 0, "retract": 1}.get(want, want)
                    if k == "range_x" and fp.get("optimal_fit_edelta") and got != "<absent>":
                        # documented don't-care: the lower bound while the plateau search is on
                        ok = np.array_equal(np.array(list(got)[1:], float), np.array(list(want)[1:], float), equal_nan=True)
                    else:
                        if k == "range_x" and got != "<absent>":
                            ok = np.array_equal(np.array(got, float), np.array(want, float), equal_nan=True)
                        else:
                            ok = got == want
                    ctx.check(ok, "requested-setting-not-stored", dict(opdesc, key=k),
                              f"step {n}: requested {k}={want!r}, stored {got!r}")
            # ---- a failed call fails again when repeated unchanged
            if exc is not None and op["op"] in ("pre", "fit", "refit", "edit"):
                op2 = op
                if op["op"] == "fit" and "pre" in op and "pre_opts" not in op:
                    # the call left the options to the curve's memory, and a rejection clears that memory: the
                    # unchanged *request* names the options it was resolved with
                    op2 = dict(op, pre_opts=opts_before)
                exc2 = do_op(idnt, op2, curve)
                ctx.check(exc2 is not None, "failed-call-accepted-when-repeated", opdesc,
                          f"step {n} {op} raised {type(exc).__name__}: {str(exc)[:100]}; the unchanged repeat was accepted")
                if rec.aborted:
                    return
            # ---- (2) no stale results
            if "hash" not in fp:
                stale = [k for k in fp if k in FP_RESULTS and k not in ("optimal_fit_E_array", "optimal_fit_delta_array")]
                # 'success': False may be set by a rejected fit before anything was computed
                stale = [k for k in stale if not (k == "success" and fp[k] is False)]
                ctx.check(not stale, "stale-results", opdesc, f"after step {n} {op['op']}: no current fit but results {stale} present")
            else:
                # ---- (1) fresh-object differential
                settings = stored_settings(idnt)
                f, fexc = fresh_replay(curve, settings)
                if rec.aborted:
                    ctx.note_case(case, nontrivial=False, classes=["aborted_fit_skipped"])
                    return
                if fexc is not None:
                    ctx.fail("results-for-settings-a-fresh-curve-rejects", opdesc,
                             f"after step {n} {op}: curve shows results (hash {fp['hash']}) but a fresh curve with the "
                             f"stored settings raises {type(fexc).__name__}: {str(fexc)[:120]}")
                else:
                    compare(ctx, opdesc, idnt, f, n)
                    hashes.add(fp["hash"])
                # ---- (3) idempotence of an unchanged refit
                snap = fitgen.snapshot(idnt)
                ncalls = len(rec.calls)
                exc3 = do_op(idnt, {"op": "refit"}, curve)
                ctx.check(exc3 is None, "refit-raises", opdesc, f"fit_model() after step {n} raised {exc3!r}")
                ctx.check(len(rec.calls) == ncalls, "refit-optimises-again", opdesc,
                          f"unchanged fit_model() after step {n} ({op['op']}) ran {len(rec.calls) - ncalls} optimisations")
                ctx.check(fitgen.snapshot(idnt) == snap, "refit-changes-state", opdesc,
                          f"unchanged fit_model() after step {n} changed the curve")
                # ---- (3b) the very same call again (same keywords and values, e.g. segment="approach" twice)
                # (parameter specifications are realised relative to the curve's current parameters: not the same values)
                if op["op"] in ("fit", "edit") and exc is None and "params_initial" not in (op.get("kw") or {}) \
                        and op.get("key") != "params_initial":
                    ncalls = len(rec.calls)
                    exc4 = do_op(idnt, op, curve)
                    ctx.check(exc4 is None and len(rec.calls) == ncalls and fitgen.snapshot(idnt) == snap,
                              "repeated-call-optimises-again", opdesc,
                              f"step {n} {op} issued a second time: raised {exc4!r}, ran {len(rec.calls) - ncalls} "
                              f"optimisations, state {'unchanged' if fitgen.snapshot(idnt) == snap else 'changed'}")
            # scan arrays, when present without plateau fit, equal a fresh scan under the stored settings
            if "optimal_fit_E_array" in fp and not fp.get("optimal_fit_edelta") and op["op"] == "emod" and exc is None:
                settings = stored_settings(idnt)
                f = synth.build(curve)
                with fitgen.catch() as box:
                    if "preprocessing" in settings:
                        f.apply_preprocessing(copy.deepcopy(settings["preprocessing"]),
                                              copy.deepcopy(settings.get("preprocessing_options", {})))
                    for k, v in settings.items():
                        if k not in ("preprocessing", "preprocessing_options"):
                            f.fit_properties[k] = copy.deepcopy(v)
                    e2, d2 = f.compute_emodulus_mindelta()
                if rec.aborted:
                    return
                if box["exc"] is None:
                    ctx.check(np.array_equal(d2, fp["optimal_fit_delta_array"]) and close(fp["optimal_fit_E_array"], e2, 1e-6),
                              "scan-differs-from-fresh-curve", opdesc, f"after step {n}: E(delta) scan differs from a fresh curve's")
            del before_calls
    ctx.note_case(case, nontrivial=bool(len(hashes) >= 2 and special),
                  classes=["fits>=2" if len(hashes) >= 2 else "fits<2", "has_special" if special else "plain"] + sorted(seen))


def run(ctx):
    max_ops = 14 if ctx.tier == "quick" else 30
    ctx.hypothesis(st_case(max_ops=max_ops), check_case, ctx.scale(800, 16000), label="history")


def replay(case, ctx):
    check_case(case, ctx)
