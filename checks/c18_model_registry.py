"""C18 — the model registry accepts only complete, consistent models and stays consistent.

Four generated families, all built from one programmatic model-module generator
(``render``: spec -> Python source):

(a) single-fault mutants of a valid model module (``check_mutant``): every route of
    registration must reject them with a ModelError subclass and leave the registry,
    ``sys.path`` and ``sys.dont_write_bytecode`` untouched;
(b) histories of register / deregister / load_model_from_file calls (``check_history``)
    interpreted against a dict model of the registry;
(c) file-loaded model vs. the same source imported from a package (``check_equiv``) and
    the documented defaults (wrappers, names, units, ancillary keys);
(d) ancillary seeding of the initial fit parameters (``check_anc``).
"""
import importlib
import itertools
import shutil
import sys
import types

import numpy as np
from hypothesis import strategies as st

from vlib.runner import HarnessError, Violation, unjson_float

PROPERTY = "C18"
SHARDS = {"quick": 8, "thorough": 16}
RULE = ("model modules are rendered from a JSON spec (1 modulus + 0-3 extra parameters + contact point + "
        "baseline, power-law force, optional own model/residual functions, optional ancillary recipe). "
        "(a) mutants: every single fault (delete each required attribute incl. model_func, shorten/lengthen "
        "each of the three lists at any index, duplicate a name/key, permute defaults/keys, drop one "
        "ancillary list) of three fixed base specs is enumerated for the routes register_model / "
        "load_model_from_file(register=True/False), plus Hypothesis-drawn (spec, fault, dont_write_bytecode, "
        "directory-on-sys.path) cases; non-trivial = the fault is asserted (all but the observation-only "
        "class). (b) histories: st.lists (<= 12) of op records register(module|instance) / register "
        "mutant / deregister / (de)register a shipped model / load_model_from_file(valid A, valid B with the "
        "same stem in another directory, valid C with the key of a registered object, valid file named like "
        "a stdlib module, missing file, missing directory, missing file named like a stdlib module, syntax "
        "error, ImportError, ModuleNotFoundError, two malformed models) x register x directory on sys.path "
        "(no/first/middle/last) x dont_write_bytecode x str/Path; non-trivial = >= 2 ops with >= 1 load and "
        ">= 1 op that changes the registry according to the dict model. (c) equivalence: Hypothesis-drawn "
        "spec, parameter values and abscissa; non-trivial = >= 2 points in contact and >= 1 out of contact. "
        "(d) ancillaries: drawn ancillary dict (matching / non-matching keys, NaN) x common/model flags; "
        "non-trivial = >= 1 ancillary key equals a fit parameter key. distinct = distinct case record")
ASSUMPTIONS = [
    "required attributes = the nine names checked by the library plus `model_func`, which the developer "
    "documentation lists in the minimal model file and the library reads unconditionally",
    "'rejected with a model error' = an exception that is an instance of nanite.model.core.ModelError; "
    "'documented import error' = nanite.model.core.ModelImportError (docstring of load_model_from_file)",
    "a file is 'not importable' when it does not exist, has a syntax error, or raises ImportError / "
    "ModuleNotFoundError while executing; other exceptions raised by a model file are not examined",
    "deregistering a key that is not registered is unspecified: any outcome is accepted as long as the "
    "registry is unchanged",
    "ancillary values are drawn inside the bounds of the matching fit parameter (lmfit clips values to "
    "the bounds) and are finite or NaN; expression-constrained parameters are not seeded",
    "files are written into a fresh directory per case and importlib.invalidate_caches() is called before "
    "the library is asked to load them (Python's documented requirement for files created at run time)",
    "generated force formula vs. harness reference: 1e-12 relative (same operations, possibly different "
    "association); file-loaded vs. package-imported model: bit-identical",
    "the model key 'hertz_cone' is used for the shipped-model ops; whatever is registered at the start of "
    "a case (e.g. the third-party 'sneddon_spher') is the baseline",
]
EPS = np.finfo(float).eps

REQUIRED = ["get_parameter_defaults", "model_doc", "model_key", "model_name", "parameter_keys",
            "parameter_names", "parameter_units", "valid_axes_x", "valid_axes_y"]
DOC_REQUIRED = REQUIRED + ["model_func"]
LISTS = ["parameter_keys", "parameter_names", "parameter_units"]
ANC_LISTS = ["parameter_anc_keys", "parameter_anc_names", "parameter_anc_units"]

# key, name, unit, default, min, max, vary, additive offset inside the power term
EXTRA_POOL = [
    ["R", "Tip Radius", "m", 10e-6, 0.0, None, False, 0.0],
    ["nu", "Poisson's Ratio", "", 0.5, 0.0, 0.5, False, 1.0],
    ["alpha", "Half Cone Angle", "°", 25.0, 0.0, 90.0, False, 0.0],
    ["t", "Layer Thickness", "m", 1e-7, 0.0, None, False, 0.0],
]
#: draw ranges for parameter values (strictly inside the bounds)
VALUE_RANGE = {"R": (1e-6, 30e-6), "nu": (0.0, 0.5), "alpha": (1.0, 80.0), "t": (1e-8, 1e-6)}


class _Abort(Exception):
    """A listed known finding was hit: the state may be out of sync, stop this case quietly."""


# --------------------------------------------------------------------------
# model module generator


def make_spec(key="c18_k0", name="C18 model", extras=(0, 1), expo=1.5, pref=4 / 3, pows=(0.5, 1.0, 2.0),
              own_model=False, anc=None, e_default=3e3):
    params = [["E", "Young's Modulus", "Pa", float(e_default), 0.0, None, True]]
    terms = []
    for n, ie in enumerate(extras):
        k, nm, unit, val, lo, hi, vary, off = EXTRA_POOL[ie]
        params.append([k, nm, unit, val, lo, hi, vary])
        terms.append([k, float(pows[n % len(pows)]), off])
    params.append(["contact_point", "Contact Point", "m", 0.0, None, None, True])
    params.append(["baseline", "Force Baseline", "N", 0.0, None, None, True])
    return {"key": key, "name": name, "doc": f"generated power law model {name}", "params": params,
            "expo": float(expo), "pref": float(pref), "terms": terms, "own_model": bool(own_model),
            "anc": anc}


def derive(spec):
    P = spec["params"]
    return {"parameter_keys": [p[0] for p in P], "parameter_names": [p[1] for p in P],
            "parameter_units": [p[2] for p in P], "defaults": [list(p) for p in P], "omit": []}


def _distinct_pair(fault, n):
    i = fault["i"] % n
    j = (i + 1 + fault["j"] % (n - 1)) % n
    return i, j


def _permute(lst, fault):
    n = len(lst)
    mode = fault["mode"]
    if mode == "reverse":
        out = lst[::-1]
    elif mode == "rotate":
        r = 1 + fault["i"] % (n - 1)
        out = lst[r:] + lst[:r]
    else:
        i, j = _distinct_pair(fault, n)
        out = list(lst)
        out[i], out[j] = out[j], out[i]
    return out


def apply_fault(spec, fault):
    s = derive(spec)
    n = len(spec["params"])
    kind = fault["kind"]
    if kind == "none":
        pass
    elif kind in ("delete", "anc_delete"):
        s["omit"].append(fault["attr"])
    elif kind == "shorten":
        lst = s[fault["list"]]
        del lst[fault["i"] % n]
    elif kind == "lengthen":
        new = {"parameter_keys": "c18_extra", "parameter_names": "C18 Extra Name", "parameter_units": "N"}
        s[fault["list"]].insert(fault["i"] % (n + 1), new[fault["list"]])
    elif kind == "dup_name":
        i, j = _distinct_pair(fault, n)
        s["parameter_names"][i] = s["parameter_names"][j]
    elif kind == "dup_key":
        i, j = _distinct_pair(fault, n)
        s["parameter_keys"][i] = s["parameter_keys"][j]
    elif kind == "permute_defaults":
        s["defaults"] = _permute(s["defaults"], fault)
    elif kind == "permute_keys":
        s["parameter_keys"] = _permute(s["parameter_keys"], fault)
    elif kind == "obs_defaults_drop":
        del s["defaults"][fault["i"] % n]
    else:
        raise HarnessError(f"unknown fault {fault}")
    return s


def fault_label(fault):
    return ":".join(str(fault[k]) for k in ("kind", "attr", "list", "mode") if k in fault)


def all_faults(spec):
    n = len(spec["params"])
    out = [{"kind": "delete", "attr": a} for a in DOC_REQUIRED]
    if spec["anc"]:
        out += [{"kind": "anc_delete", "attr": a} for a in ANC_LISTS]
    for lst in LISTS:
        out += [{"kind": "shorten", "list": lst, "i": i} for i in range(n)]
        out += [{"kind": "lengthen", "list": lst, "i": i} for i in (0, n // 2, n)]
    for i, j in itertools.permutations(range(n), 2):
        jj = (j - i - 1) % n
        out.append({"kind": "dup_name", "i": i, "j": jj})
        out.append({"kind": "dup_key", "i": i, "j": jj})
    for kind in ("permute_defaults", "permute_keys"):
        out.append({"kind": kind, "mode": "reverse", "i": 0, "j": 0})
        out += [{"kind": kind, "mode": "rotate", "i": r, "j": 0} for r in range(n - 1)]
        out += [{"kind": kind, "mode": "swap", "i": i, "j": 0} for i in range(n - 1)]
    out += [{"kind": "obs_defaults_drop", "i": n - 1}, {"kind": "obs_defaults_drop", "i": 0}]
    return out


def _lit(v):
    v = unjson_float(v)
    if isinstance(v, float) and v != v:
        return 'float("nan")'
    return repr(v)


def render(spec, state=None):
    """Python source of the model module described by ``spec`` (``state``: lists after a fault)."""
    s = state or derive(spec)
    omit = set(s["omit"])
    L = ["import lmfit", "import numpy as np", "", "CALLS = []", "", ""]
    if "get_parameter_defaults" not in omit:
        L += ["def get_parameter_defaults():", "    params = lmfit.Parameters()"]
        for k, _n, _u, val, lo, hi, vary in s["defaults"]:
            args = [f"value={val!r}"]
            if lo is not None:
                args.append(f"min={lo!r}")
            if hi is not None:
                args.append(f"max={hi!r}")
            if not vary:
                args.append("vary=False")
            L.append(f"    params.add({k!r}, {', '.join(args)})")
        L += ["    return params", "", ""]
    sig = ["delta"] + [p[0] + ("=0" if p[0] in ("contact_point", "baseline") else "") for p in spec["params"]]
    amp = f"{spec['pref']!r} * E" + "".join(f" * ({off!r} + {k}) ** {pw!r}" for k, pw, off in spec["terms"])
    L += [f"def c18_function({', '.join(sig)}):", f'    """{spec["doc"]}"""',
          "    root = contact_point - delta", "    pos = root > 0", "    out = np.zeros_like(delta)",
          f"    out[pos] = root[pos] ** {spec['expo']!r}", f"    amp = {amp}",
          "    return amp * out + baseline", "", ""]
    if spec["own_model"]:
        L += ["def model(params, x):", "    CALLS.append('model')", "    rev = x[0] < x[-1]",
              "    xx = x[::-1] if rev else x", "    out = c18_function(xx, **params.valuesdict())",
              "    return out[::-1] if rev else out", "", "",
              "def residual(params, delta, force, weight_cp=5e-7):", "    CALLS.append('residual')",
              "    return force - model(params, delta)", "", ""]
    if spec["anc"]:
        a = spec["anc"]
        items = ", ".join(f"{k!r}: {_lit(v)}" for k, v in zip(a["keys"], a["values"]))
        L += [f"ANC = {{{items}}}", "", "", "def compute_ancillaries(idnt):", "    return dict(ANC)", "", ""]
        for attr, field in zip(ANC_LISTS, ("keys", "names", "units")):
            if attr not in omit:
                L.append(f"{attr} = {a[field]!r}")
    simple = {"model_doc": "c18_function.__doc__", "model_func": "c18_function",
              "model_key": repr(spec["key"]), "model_name": repr(spec["name"]),
              "parameter_keys": repr(s["parameter_keys"]), "parameter_names": repr(s["parameter_names"]),
              "parameter_units": repr(s["parameter_units"]), "valid_axes_x": repr(["tip position"]),
              "valid_axes_y": repr(["force"])}
    for attr, val in simple.items():
        if attr not in omit:
            L.append(f"{attr} = {val}")
    return "\n".join(L) + "\n"


def module_from_source(src, name):
    m = types.ModuleType(name)
    exec(compile(src, f"<{name}>", "exec"), m.__dict__)
    return m


def ref_force(spec, pvals, x):
    """independent evaluation of the generated force law"""
    depth = np.maximum(pvals["contact_point"] - x, 0.0)
    amp = spec["pref"] * pvals["E"]
    for k, pw, off in spec["terms"]:
        amp = amp * (off + pvals[k]) ** pw
    return amp * depth ** spec["expo"] + pvals["baseline"]


def abscissa(xc):
    """strictly descending grid from cp + top*scale down to cp - scale (approach order)"""
    rs = np.random.RandomState(xc["seed"])
    u = np.unique(np.concatenate([[0.0, 1.0], rs.uniform(size=max(0, xc["n"] - 2))]))
    x = xc["cp"] + xc["top"] * xc["scale"] - u * (xc["top"] + 1.0) * xc["scale"]
    keep = np.concatenate([[True], np.diff(x) < 0])
    return x[keep]


def set_params(md, pvals):
    params = md.get_parameter_defaults()
    for k, v in pvals.items():
        params[k].set(value=v)
    return params


def pstate(params):
    return [(k, p.value, p.min, p.max, p.vary, p.expr) for k, p in params.items()]


def same_float(a, b):
    a, b = float(a), float(b)
    return (a != a and b != b) or a == b


# --------------------------------------------------------------------------
# sandbox: per-case directory and restoration of all process-global state

_counter = itertools.count()


class Sandbox:
    def __init__(self, ctx):
        from nanite import model as nmodel
        self.nmodel = nmodel
        self.tag = f"s{ctx.shard}_{next(_counter)}"
        self.root = ctx.workdir / f"c18_{self.tag}"
        self.root.mkdir(parents=True, exist_ok=True)
        self.reg0 = dict(nmodel.models_available)
        self.path0 = list(sys.path)
        self.dwb0 = sys.dont_write_bytecode
        self.mods0 = set(sys.modules)
        self.stems = set()

    def stem(self, suffix=""):
        s = f"c18m_{self.tag}{suffix}"
        self.stems.add(s)
        return s

    def write(self, subdir, stem, src):
        d = self.root / subdir
        d.mkdir(parents=True, exist_ok=True)
        self.stems.add(stem)
        p = d / f"{stem}.py"
        if src is not None:
            p.write_text(src, encoding="utf-8")
        return p

    def ready(self):
        importlib.invalidate_caches()

    def close(self):
        reg = self.nmodel.models_available
        reg.clear()
        reg.update(self.reg0)
        sys.path[:] = self.path0
        sys.dont_write_bytecode = self.dwb0
        for name in set(sys.modules) - self.mods0:
            if name.split(".")[0] in self.stems:
                del sys.modules[name]
        root = str(self.root)
        for p in list(sys.path_importer_cache):
            if str(p).startswith(root):
                del sys.path_importer_cache[p]
        shutil.rmtree(self.root, ignore_errors=True)
        importlib.invalidate_caches()


class Oracle:
    """shared verdict helpers; a failed check that is a listed known finding aborts the case"""

    def __init__(self, ctx, sb):
        self.ctx = ctx
        self.sb = sb
        self.nmodel = sb.nmodel

    def ok(self, cond, sub, desc, detail):
        if not self.ctx.check(cond, sub, desc, detail):
            raise _Abort()

    @staticmethod
    def _call(fn):
        """(result, exception) of ``fn()``.  Verdicts are given outside the ``except`` block so that a
        Violation carries no exception context (Hypothesis would tell replays apart by the generated file
        names in that context)."""
        try:
            return fn(), None
        except (Violation, HarnessError, KeyboardInterrupt, SystemExit, MemoryError):
            raise
        except BaseException as exc:  # noqa  (nanite's errors derive from BaseException)
            caught = exc
        caught.__traceback__ = None
        return None, caught

    def expect_raises(self, fn, cls, sub, desc, what):
        """``fn()`` must raise an instance of ``cls``.  A wrong exception class that is a listed known
        finding does not end the case: the call was still rejected and the state checks follow."""
        _res, exc = self._call(fn)
        if exc is None:
            self.ok(False, sub, dict(desc, exception="none"), f"{what}: accepted, expected {cls.__name__}")
        self.ctx.check(isinstance(exc, cls), sub, dict(desc, exception=type(exc).__name__),
                       f"{what}: raised {type(exc).__name__}: {str(exc)[:160]} instead of {cls.__name__}")
        self.ctx.event(f"rejected_with_{type(exc).__name__}")
        return exc

    def must_work(self, fn, sub, desc, what):
        res, exc = self._call(fn)
        if exc is not None:
            self.ok(False, sub, dict(desc, exception=type(exc).__name__),
                    f"{what}: raised {type(exc).__name__}: {str(exc)[:160]}")
        return res

    def outcome(self, fn):
        """name of the exception class raised by ``fn()`` or None (unspecified behaviour, only recorded)"""
        _res, exc = self._call(fn)
        return None if exc is None else type(exc).__name__

    def interpreter_state(self, desc, path_want, dwb_want):
        # (a listed known finding does not end the case: the harness repairs the state and goes on)
        d = {k: desc[k] for k in ("call", "file", "on_path") if k in desc}
        if not self.ctx.check(list(sys.path) == path_want, "sys-path-restored", d,
                              f"sys.path differs after the call: {_path_diff(path_want, list(sys.path))}"):
            sys.path[:] = path_want
        d = {k: desc[k] for k in ("call", "file") if k in desc}
        if not self.ctx.check(sys.dont_write_bytecode == dwb_want, "dont-write-bytecode-restored",
                              dict(d, prior=dwb_want), f"sys.dont_write_bytecode was {dwb_want}, is "
                              f"{sys.dont_write_bytecode} after the call"):
            sys.dont_write_bytecode = dwb_want

    def registry(self, desc, names, untouched):
        """registry == dict model: keys, model names, identity of untouched baseline entries"""
        reg = self.nmodel.models_available
        d = {k: desc[k] for k in ("call", "file", "fault") if k in desc}
        self.ok(sorted(reg) == sorted(names), "registry-contents", d,
                f"registered keys {sorted(reg)}, dict model {sorted(names)}")
        for k, nm in names.items():
            self.ok(getattr(reg[k], "model_key", None) == k and reg[k].model_name == nm, "registry-contents", d,
                    f"models_available[{k!r}] is '{getattr(reg[k], 'model_name', None)}' (key "
                    f"{getattr(reg[k], 'model_key', None)!r}), dict model says '{nm}'")
        for k in untouched:
            self.ok(reg[k] is self.sb.reg0[k], "registry-contents", d,
                    f"models_available[{k!r}] was replaced although no operation touched it")


def _path_diff(want, got):
    if want == got:
        return ""
    if sorted(want) != sorted(got):
        return f"entries removed {[p for p in want if p not in got]}, added {[p for p in got if p not in want]}"
    moved = [p for i, p in enumerate(want) if got[i] != p]
    return f"same entries in a different order; first displaced entry {moved[0]!r} " \
           f"(index {want.index(moved[0])} -> {got.index(moved[0])})"


def put_on_path(d, where):
    """harness action: the directory is (already) on sys.path when the library is called"""
    if where == "first":
        sys.path.insert(0, str(d))
    elif where == "middle":
        sys.path.insert(len(sys.path) // 2, str(d))
    elif where == "last":
        sys.path.append(str(d))


# --------------------------------------------------------------------------
# (a) single-fault mutants


def check_mutant(case, ctx):
    spec, fault = case["spec"], case["fault"]
    asserted = not fault["kind"].startswith("obs_")
    label = fault_label(fault)
    ctx.note_case(case, nontrivial=asserted,
                  classes=["mutant", "fault_" + fault["kind"], "with_anc_recipe" if spec["anc"] else "without_anc_recipe"])
    sb = Sandbox(ctx)
    try:
        _run_mutant(case, ctx, sb, spec, fault, asserted, label)
    except _Abort:
        pass
    finally:
        sb.close()


def _run_mutant(case, ctx, sb, spec, fault, asserted, label):
    from nanite.model.core import ModelError
    nmodel = sb.nmodel
    orc = Oracle(ctx, sb)
    src = render(spec, apply_fault(spec, fault))
    path = sb.write("models", sb.stem(), src)
    sb.ready()
    names0 = {k: v.model_name for k, v in sb.reg0.items()}
    for route in ("register_model", "NaniteFitModel", "load_file_register", "load_file"):
        desc = {"call": route, "fault": label}
        before = list(sys.path)
        if route.startswith("load_file"):
            desc["file"] = "mutant"
            desc["on_path"] = case["on_path"]
            put_on_path(path.parent, case["on_path"])
            arg = str(path) if case["as_str"] else path
            fn = lambda: nmodel.load_model_from_file(arg, register=route.endswith("register"))  # noqa: E731
        else:
            mod = module_from_source(src, "c18_mutant_object")
            fn = (lambda: nmodel.register_model(mod)) if route == "register_model" else \
                (lambda: nmodel.NaniteFitModel(mod))  # noqa: E731
        sys.dont_write_bytecode = case["dwb"]
        snap = list(sys.path)
        if asserted:
            orc.expect_raises(fn, ModelError, "mutant-rejected-with-model-error", desc, f"{route}({label})")
        else:
            name = orc.outcome(fn)
            ctx.event(f"{label}_{route}_" + ("accepted" if name is None else f"raised_{name}"))
            if spec["key"] in nmodel.models_available:
                nmodel.models_available.pop(spec["key"])
        orc.interpreter_state(desc, snap, case["dwb"])
        orc.registry(desc, names0, list(sb.reg0))
        sys.path[:] = before


def mutant_cases():
    """all single faults of three fixed base specs"""
    anc = {"keys": ["E", "verif_anc"], "names": ["ancillary modulus", "verif ancillary"], "units": ["Pa", ""],
           "values": [1234.5, "NaN"]}
    specs = [make_spec("c18_m0", "C18 mutant base 0", extras=(0, 1)),
             make_spec("c18_m1", "C18 mutant base 1", extras=(2,), expo=2.0, anc=anc),
             make_spec("c18_m2", "C18 mutant base 2", extras=(), expo=1.0, own_model=True)]
    n = 0
    for spec in specs:
        for fault in all_faults(spec):
            n += 1
            yield {"kind": "mutant", "spec": spec, "fault": fault, "dwb": bool(n % 2),
                   "on_path": ["no", "first", "middle", "last"][(n // 2) % 4], "as_str": bool((n // 8) % 2)}


@st.composite
def st_spec(draw, anc="maybe", key=None):
    extras = draw(st.lists(st.sampled_from(range(len(EXTRA_POOL))), unique=True, max_size=3))
    a = None
    if anc is True or (anc == "maybe" and draw(st.booleans())):
        a = draw(st_anc_recipe(["E"] + [EXTRA_POOL[i][0] for i in extras] + ["contact_point", "baseline"]))
    return make_spec(key=key or draw(st.sampled_from(["c18_g0", "c18_g1", "c18_g2"])),
                     name="C18 generated " + draw(st.sampled_from(["alpha", "beta", "gamma"])),
                     extras=extras, expo=draw(st.sampled_from([1.0, 1.5, 2.0, 2.5])),
                     pref=draw(st.floats(0.1, 10.0)), pows=draw(st.permutations([0.5, 1.0, 2.0])),
                     own_model=draw(st.booleans()), anc=a,
                     e_default=draw(st.sampled_from([3e3, 1e2, 2.5e4])))


ANC_VALUE_RANGE = dict(VALUE_RANGE, E=(1.0, 1e6), contact_point=(-1e-5, 1e-5), baseline=(-1e-8, 1e-8))


@st.composite
def st_anc_recipe(draw, fit_keys):
    matching = draw(st.lists(st.sampled_from(fit_keys), unique=True, max_size=len(fit_keys)))
    other = draw(st.lists(st.sampled_from(["verif_anc", "force_range", "E_anc"]), unique=True, max_size=2))
    keys = draw(st.permutations(matching + other))
    if not keys:
        keys = ["verif_anc"]
    values = []
    for k in keys:
        lo, hi = ANC_VALUE_RANGE.get(k, (-1e3, 1e3))
        v = draw(st.one_of(st.just("NaN"), st.floats(lo, hi), st.floats(lo, hi)))
        values.append(v)
    return {"keys": list(keys), "names": [f"ancillary {k}" for k in keys],
            "units": [draw(st.sampled_from(["Pa", "m", "N", ""])) for _ in keys], "values": values}


@st.composite
def st_fault(draw, spec):
    kinds = ["delete", "shorten", "lengthen", "dup_name", "dup_key", "permute_defaults", "permute_keys",
             "obs_defaults_drop"]
    if spec["anc"]:
        kinds.append("anc_delete")
    kind = draw(st.sampled_from(kinds))
    f = {"kind": kind, "i": draw(st.integers(0, 7)), "j": draw(st.integers(0, 7))}
    if kind == "delete":
        f["attr"] = draw(st.sampled_from(DOC_REQUIRED))
    elif kind == "anc_delete":
        f["attr"] = draw(st.sampled_from(ANC_LISTS))
    elif kind in ("shorten", "lengthen"):
        f["list"] = draw(st.sampled_from(LISTS))
    elif kind.startswith("permute"):
        f["mode"] = draw(st.sampled_from(["swap", "rotate", "reverse"]))
    return f


@st.composite
def st_mutant(draw):
    spec = draw(st_spec())
    return {"kind": "mutant", "spec": spec, "fault": draw(st_fault(spec)), "dwb": draw(st.booleans()),
            "on_path": draw(st.sampled_from(["no", "no", "first", "middle", "last"])),
            "as_str": draw(st.booleans())}


# --------------------------------------------------------------------------
# (b) histories

SLOT_KEYS = ["c18_k0", "c18_k1", "c18_k0", "c18_k1"]
BUILTIN = "hertz_cone"
FILE_KINDS = ["valid_a", "valid_b", "valid_c", "valid_stdlib_stem", "missing", "missing_dir",
              "missing_stdlib_stem", "syntax", "import_error", "module_not_found", "bad_incomplete",
              "bad_inconsistent"]
UNIMPORTABLE = {"missing", "missing_dir", "missing_stdlib_stem", "syntax", "import_error", "module_not_found"}
TARGETS = ["slot0", "slot1", "slot2", "slot3", "valid_a", "valid_b", "valid_c", "valid_stdlib_stem"]
BAD_FAULTS = [{"kind": "delete", "attr": "parameter_names"}, {"kind": "shorten", "list": "parameter_units", "i": 1},
              {"kind": "dup_name", "i": 0, "j": 1}, {"kind": "permute_defaults", "mode": "swap", "i": 0, "j": 0},
              {"kind": "delete", "attr": "model_key"}, {"kind": "lengthen", "list": "parameter_keys", "i": 9}]
#: stem of a standard library module that nothing here imports for its own sake
STDLIB_STEM = "colorsys"
STDLIB_STEM_MISSING = "json"


def slot_spec(i):
    anc = {"keys": ["verif_anc"], "names": ["verif ancillary"], "units": [""], "values": [1.0]} if i == 3 else None
    return make_spec(SLOT_KEYS[i], f"C18 slot {i}", extras=[(0, 1), (2,), (), (3, 0)][i],
                     expo=[1.5, 2.0, 1.0, 2.5][i], own_model=(i == 2), anc=anc)


def file_specs():
    return {"valid_a": make_spec("c18_fa", "C18 file A", extras=(0, 1), expo=1.5),
            "valid_b": make_spec("c18_fb", "C18 file B", extras=(2,), expo=2.0),
            "valid_c": make_spec("c18_k0", "C18 file C", extras=(1,), expo=1.0),
            "valid_stdlib_stem": make_spec("c18_fs", "C18 file S", extras=(), expo=2.5)}


def history_stats(ops):
    """pure pre-pass with the dict model: does any op change the registry?"""
    model = set()
    fkeys = {k: s["key"] for k, s in file_specs().items()}
    changes = loads = 0
    builtin = True
    for op in ops:
        o = op["op"]
        if o == "register":
            changes += 1
            model.add(SLOT_KEYS[op["slot"]])
        elif o == "deregister":
            t = op["target"]
            k = SLOT_KEYS[int(t[4])] if t.startswith("slot") else fkeys[t]
            if k in model:
                model.discard(k)
                changes += 1
        elif o == "deregister_builtin":
            changes += builtin
            builtin = False
        elif o == "register_builtin":
            changes += 1
            builtin = True
        elif o == "load":
            loads += 1
            if op["register"] and op["file"] in fkeys:
                model.add(fkeys[op["file"]])
                changes += 1
    return changes, loads


def check_history(case, ctx):
    ops = case["ops"]
    changes, loads = history_stats(ops)
    classes = ["history"] + sorted({"op_" + (o["op"] if o["op"] != "load" else "load_" + o["file"]) for o in ops})
    ctx.note_case(case, nontrivial=len(ops) >= 2 and loads >= 1 and changes >= 1, classes=classes)
    sb = Sandbox(ctx)
    try:
        _run_history(ops, ctx, sb)
    except _Abort:
        pass
    finally:
        sb.close()


def _run_history(ops, ctx, sb):
    from nanite.model.core import ModelError, ModelImportError
    nmodel = sb.nmodel
    orc = Oracle(ctx, sb)
    # ---- fixtures
    slots = [slot_spec(i) for i in range(4)]
    slot_mods = [module_from_source(render(s), f"c18_slot{i}") for i, s in enumerate(slots)]
    fspecs = file_specs()
    stem = sb.stem()
    fa = fspecs["valid_a"]
    paths = {
        "valid_a": sb.write("dir_a", stem, render(fa)),
        "valid_b": sb.write("dir_b", stem, render(fspecs["valid_b"])),
        "valid_c": sb.write("dir_a", sb.stem("_c"), render(fspecs["valid_c"])),
        "valid_stdlib_stem": sb.write("dir_b", STDLIB_STEM, render(fspecs["valid_stdlib_stem"])),
        "missing": sb.write("dir_a", sb.stem("_missing"), None),
        "missing_dir": sb.root / "no_such_dir" / (sb.stem("_nd") + ".py"),
        "missing_stdlib_stem": sb.write("dir_a", STDLIB_STEM_MISSING, None),
        "syntax": sb.write("dir_a", sb.stem("_syntax"), "import numpy as np\n\n\ndef broken(:\n    pass\n"),
        "import_error": sb.write("dir_a", sb.stem("_imperr"),
                                 'raise ImportError("c18: this model file refuses to be imported")\n'),
        "module_not_found": sb.write("dir_b", sb.stem("_modnf"),
                                     "import c18_module_that_does_not_exist_xyz  # noqa\n" + render(fa)),
        "bad_incomplete": sb.write("dir_a", sb.stem("_bad1"),
                                   render(fa, apply_fault(fa, {"kind": "delete", "attr": "parameter_units"}))),
        "bad_inconsistent": sb.write("dir_b", sb.stem("_bad2"),
                                     render(fa, apply_fault(fa, {"kind": "dup_name", "i": 1, "j": 1}))),
    }
    sb.stems.discard(STDLIB_STEM_MISSING)      # the real json module stays imported
    sb.ready()
    target_spec = dict(fspecs, **{f"slot{i}": s for i, s in enumerate(slots)})
    # ---- dict model
    names = {k: v.model_name for k, v in sb.reg0.items()}
    untouched = set(sb.reg0)
    loaded_paths = {}        # stem -> set of paths loaded successfully so far
    x_probe = np.linspace(1.5e-6, -1e-6, 23)

    for step, op in enumerate(ops):
        o = op["op"]
        desc = {"call": o}
        before = list(sys.path)
        dwb = bool(op.get("dwb", True))
        sys.dont_write_bytecode = dwb
        snap = list(sys.path)
        if o == "register":
            spec, mod = slots[op["slot"]], slot_mods[op["slot"]]
            desc["as"] = op["as"]
            if op["as"] == "instance":
                inst = orc.must_work(lambda: nmodel.NaniteFitModel(mod), "valid-register-raises", desc,
                                     "NaniteFitModel(valid module)")
                ret = orc.must_work(lambda: nmodel.register_model(inst), "valid-register-raises", desc,
                                    "register_model(NaniteFitModel)")
                orc.ok(ret is inst, "register-return-value", desc,
                       "register_model(instance) did not return the instance")
            else:
                ret = orc.must_work(lambda: nmodel.register_model(mod), "valid-register-raises", desc,
                                    "register_model(valid module)")
                orc.ok(isinstance(ret, nmodel.NaniteFitModel), "register-return-value", desc,
                       f"register_model(module) returned {type(ret).__name__}")
            orc.ok(nmodel.models_available.get(spec["key"]) is ret, "register-return-value", desc,
                   "the returned model is not the object stored under its key")
            names[spec["key"]] = spec["name"]
        elif o == "register_bad":
            fault = BAD_FAULTS[op["fault"] % len(BAD_FAULTS)]
            desc["fault"] = fault_label(fault)
            bad = module_from_source(render(slots[0], apply_fault(slots[0], fault)), "c18_bad_object")
            orc.expect_raises(lambda: nmodel.register_model(bad), ModelError, "mutant-rejected-with-model-error",
                              dict(desc, call="register_model"), f"register_model({desc['fault']})")
        elif o == "deregister":
            spec = target_spec[op["target"]]
            key = spec["key"]
            stub = nmodel.NaniteFitModel(module_from_source(render(spec), "c18_dereg_stub"))
            if key in names:
                orc.must_work(lambda: nmodel.deregister_model(stub), "deregister-raises", desc,
                              "deregister_model(registered key)")
                del names[key]
            else:
                desc["call"] = "deregister_unregistered"
                # unspecified outcome; only the registry is examined
                name = orc.outcome(lambda: nmodel.deregister_model(stub))
                ctx.event("deregister_unregistered_" + (name or "silent"))
        elif o == "deregister_builtin":
            if BUILTIN in names:
                md = nmodel.models_available.get(BUILTIN, sb.reg0.get(BUILTIN))
                orc.must_work(lambda: nmodel.deregister_model(md), "deregister-raises", desc,
                              "deregister_model(shipped model)")
                del names[BUILTIN]
                untouched.discard(BUILTIN)
        elif o == "register_builtin":
            if BUILTIN in sb.reg0:
                mod = sb.reg0[BUILTIN].module
                orc.must_work(lambda: nmodel.register_model(mod), "valid-register-raises", desc,
                              "register_model(shipped module)")
                names[BUILTIN] = sb.reg0[BUILTIN].model_name
                untouched.discard(BUILTIN)
        elif o == "load":
            kind = op["file"]
            path = paths[kind]
            desc.update(file=kind, on_path=op["on_path"])
            put_on_path(path.parent, op["on_path"])
            snap = list(sys.path)
            arg = str(path) if op["as_str"] else path
            call = lambda: nmodel.load_model_from_file(arg, register=op["register"])  # noqa: E731
            what = f"load_model_from_file({kind}, register={op['register']})"
            if kind in UNIMPORTABLE:
                orc.expect_raises(call, ModelImportError, "unimportable-file-error", {"file": kind}, what)
            elif kind.startswith("bad_"):
                orc.expect_raises(call, ModelError, "mutant-rejected-with-model-error",
                                  {"call": "load_file", "fault": kind, "file": kind}, what)
            else:
                spec = fspecs[kind]
                cached = any(p != str(path) for p in loaded_paths.get(path.stem, ())) \
                    or kind == "valid_stdlib_stem"
                d2 = {"file": kind, "stem_known_to_interpreter": bool(cached)}
                md = orc.must_work(call, "valid-file-load-raises", d2, what)
                orc.ok(isinstance(md, nmodel.NaniteFitModel), "loaded-model-identity", d2,
                       f"{what} returned {type(md).__name__}")
                orc.ok(md.model_key == spec["key"] and md.model_name == spec["name"], "loaded-model-identity",
                       d2, f"{what}: got model '{md.model_name}' (key {md.model_key!r}), the file defines "
                       f"'{spec['name']}' (key {spec['key']!r})")
                pvals = {p[0]: p[3] for p in spec["params"]}
                pvals.update(contact_point=2e-7, baseline=1e-10)
                f = orc.must_work(lambda: md.model(set_params(md, pvals), x_probe.copy()), "model-raises", d2,
                                  "model() of a loaded file")
                want = ref_force(spec, pvals, x_probe)
                orc.ok(np.all(np.abs(f - want) <= 1e-12 * (np.abs(want) + abs(pvals["baseline"]))),
                       "loaded-model-behaviour", d2, f"{what}: force differs from the file's formula")
                loaded_paths.setdefault(path.stem, set()).add(str(path))
                if op["register"]:
                    names[spec["key"]] = spec["name"]
        else:
            raise HarnessError(f"unknown op {op}")
        orc.interpreter_state(desc, snap, dwb)
        orc.registry(desc, names, untouched)
        sys.path[:] = before
        ctx.extra["max_history_steps"] = max(ctx.extra.get("max_history_steps", 0), step + 1)


def st_op():
    load = st.fixed_dictionaries({
        "op": st.just("load"), "file": st.sampled_from(FILE_KINDS), "register": st.booleans(),
        "on_path": st.sampled_from(["no", "no", "first", "middle", "last"]), "dwb": st.booleans(),
        "as_str": st.booleans()})
    load_valid = st.fixed_dictionaries({
        "op": st.just("load"), "file": st.sampled_from(["valid_a", "valid_b", "valid_c"]),
        "register": st.booleans(), "on_path": st.sampled_from(["no", "first"]), "dwb": st.booleans(),
        "as_str": st.booleans()})
    reg = st.fixed_dictionaries({"op": st.just("register"), "slot": st.integers(0, 3),
                                 "as": st.sampled_from(["module", "instance"])})
    bad = st.fixed_dictionaries({"op": st.just("register_bad"), "fault": st.integers(0, len(BAD_FAULTS) - 1)})
    dereg = st.fixed_dictionaries({"op": st.just("deregister"), "target": st.sampled_from(TARGETS)})
    builtin = st.sampled_from([{"op": "deregister_builtin"}, {"op": "register_builtin"}])
    return st.one_of(load, load, load, load_valid, reg, reg, dereg, dereg, bad, builtin)


def st_history():
    return st.lists(st_op(), min_size=1, max_size=12).map(lambda ops: {"kind": "history", "ops": ops})


def pinned_histories():
    """one short history per class of the generator, so that every class is exercised for every seed"""
    def load(kind, **kw):
        return dict({"op": "load", "file": kind, "register": True, "on_path": "no", "dwb": True,
                     "as_str": False}, **kw)
    hs = [[load(k)] for k in FILE_KINDS]
    hs += [[load("valid_a", on_path=w, dwb=False)] for w in ("first", "middle", "last")]
    hs += [[load("valid_a", dwb=False, register=False)],
           [load("valid_a", dwb=False), load("valid_b", dwb=False)],
           [load("valid_b", register=False, dwb=False), load("valid_a", dwb=False)],
           [load("valid_a"), load("valid_a", as_str=True), {"op": "deregister", "target": "valid_a"}],
           [{"op": "register", "slot": 0, "as": "module"}, load("valid_c"),
            {"op": "deregister", "target": "slot2"}],
           [{"op": "register", "slot": 0, "as": "instance"}, {"op": "register", "slot": 1, "as": "module"},
            {"op": "register_bad", "fault": 0}, {"op": "deregister", "target": "slot0"},
            {"op": "deregister", "target": "slot0"}, {"op": "register", "slot": 2, "as": "module"}],
           [{"op": "deregister_builtin"}, load("missing"), {"op": "register_builtin"}],
           [{"op": "register", "slot": 3, "as": "module"}, {"op": "deregister_builtin"},
            {"op": "deregister", "target": "slot1"}]]
    return [{"kind": "history", "ops": ops} for ops in hs]


# --------------------------------------------------------------------------
# (c) file-loaded model == package-imported model, documented defaults


@st.composite
def st_pvals(draw, spec):
    p = {"E": 10.0 ** draw(st.floats(1.0, 6.0))}
    for k, _pw, _off in spec["terms"]:
        p[k] = draw(st.floats(*VALUE_RANGE[k]))
    p["contact_point"] = draw(st.sampled_from([0.0, 1.0, -1.0])) * draw(st.floats(0, 3e-6))
    p["baseline"] = draw(st.sampled_from([0.0, 1.0, -1.0])) * draw(st.floats(0, 1e-8))
    return p


@st.composite
def st_equiv(draw):
    spec = draw(st_spec())
    pvals = draw(st_pvals(spec))
    return {"kind": "equiv", "spec": spec, "pvals": pvals,
            "x": {"seed": draw(st.integers(0, 2**20)), "n": draw(st.integers(2, 40)), "cp": pvals["contact_point"],
                  "top": draw(st.floats(0.05, 3.0)), "scale": draw(st.floats(0.2e-6, 3e-6))},
            "ascending": draw(st.booleans()), "noise_seed": draw(st.integers(0, 10000)),
            "weight_cp": draw(st.sampled_from([0, False, 1e-8, 5e-7, 2e-6])),
            "register_file": draw(st.booleans())}


_curve = {}


def small_curve():
    from vlib import synth
    if "c" not in _curve:
        _curve["c"] = synth.base_case(with_tip=True, n_app=120, n_ret=100, noise=1e-3, noise_seed=5)
    return synth.build(_curve["c"])


def check_equiv(case, ctx):
    spec = case["spec"]
    x_desc = abscissa(case["x"])
    depth = case["x"]["cp"] - x_desc
    nt = bool((depth > 0).sum() >= 2 and (depth <= 0).sum() >= 1)
    ctx.note_case(case, nontrivial=nt, classes=["equiv", "own_model" if spec["own_model"] else "default_wrappers",
                                                "with_anc_recipe" if spec["anc"] else "without_anc_recipe"])
    sb = Sandbox(ctx)
    try:
        _run_equiv(case, ctx, sb, spec, x_desc)
    except _Abort:
        pass
    finally:
        sb.close()


def _run_equiv(case, ctx, sb, spec, x_desc):
    from nanite.model import core as ncore
    nmodel = sb.nmodel
    orc = Oracle(ctx, sb)
    desc = {"wrappers": "own" if spec["own_model"] else "default"}
    src = render(spec)
    fpath = sb.write("files", sb.stem(), src)
    pkg = sb.stem("_pkg")
    sb.write(pkg, "__init__", "")
    sb.write(pkg, "model_generated", src)
    sb.stems.discard("__init__")
    sb.stems.discard("model_generated")
    sb.ready()
    names0 = {k: v.model_name for k, v in sb.reg0.items()}
    snap = list(sys.path)
    dwb = sys.dont_write_bytecode
    reg_file = case["register_file"]
    md_f = orc.must_work(lambda: nmodel.load_model_from_file(fpath, register=reg_file),
                         "valid-file-load-raises", {"file": "valid_generated", "stem_known_to_interpreter": False},
                         "load_model_from_file(generated valid file)")
    d_state = {"call": "load", "file": "valid_generated", "on_path": "no"}
    orc.interpreter_state(d_state, snap, dwb)
    orc.registry(d_state, dict(names0, **({spec["key"]: spec["name"]} if reg_file else {})), list(sb.reg0))
    if reg_file:
        orc.must_work(lambda: nmodel.deregister_model(md_f), "deregister-raises", {"call": "deregister"},
                      "deregister_model(model returned by load_model_from_file)")
        orc.registry({"call": "deregister"}, names0, list(sb.reg0))
    # the same source shipped in a package (harness puts the package on sys.path for the import only)
    sys.path.insert(0, str(sb.root))
    try:
        pmod = importlib.import_module(f"{pkg}.model_generated")
    finally:
        sys.path[:] = snap
    md_p = orc.must_work(lambda: nmodel.register_model(pmod), "valid-register-raises", {"call": "register", "as": "module"},
                         "register_model(package module)")
    orc.registry({"call": "register"}, dict(names0, **{spec["key"]: spec["name"]}), list(sb.reg0))
    orc.ok(nmodel.models_available[spec["key"]] is md_p, "register-return-value", {"call": "register", "as": "module"},
           "the returned model is not the object stored under its key")

    # ---- documented attributes and defaults
    keys = [p[0] for p in spec["params"]]
    want_attr = {"model_key": spec["key"], "model_name": spec["name"], "model_doc": spec["doc"],
                 "parameter_keys": keys, "parameter_names": [p[1] for p in spec["params"]],
                 "parameter_units": [p[2] for p in spec["params"]], "valid_axes_x": ["tip position"],
                 "valid_axes_y": ["force"]}
    common = list(ncore.ANCILLARY_COMMON)
    orc.ok("max_indent" in common, "ancillary-keys", desc, f"common ancillaries {common} lack 'max_indent'")
    own = list(spec["anc"]["keys"]) if spec["anc"] else []
    for tag, md in (("file", md_f), ("package", md_p)):
        d = dict(desc, source=tag)
        for attr, want in want_attr.items():
            orc.ok(getattr(md, attr, None) == want, "model-attributes", dict(d, attr=attr),
                   f"{tag} model: {attr} = {getattr(md, attr, None)!r}, module defines {want!r}")
        got_keys = orc.must_work(lambda: list(md.get_anc_parm_keys()), "lookup-raises", d, "get_anc_parm_keys()")
        orc.ok(got_keys == common + own, "ancillary-keys", d,
               f"get_anc_parm_keys() = {got_keys}, expected {common + own}")
        # (asking for the keys a second time gives the same answer and leaves the module's own list alone)
        again = orc.must_work(lambda: list(md.get_anc_parm_keys()), "lookup-raises", d, "get_anc_parm_keys()")
        orc.ok(again == common + own and list(getattr(md.module, "parameter_anc_keys", [])) == own, "ancillary-keys", d,
               f"second get_anc_parm_keys() = {again}; module.parameter_anc_keys = "
               f"{getattr(md.module, 'parameter_anc_keys', None)}, module defines {own}")
        for p in spec["params"]:
            lab = orc.must_work(lambda: (md.get_parm_name(p[0]), md.get_parm_unit(p[0])), "lookup-raises", d,
                                f"get_parm_name/unit({p[0]!r})")
            orc.ok(lab == (p[1], p[2]), "parameter-name-unit", d, f"{p[0]}: {lab!r} != ({p[1]!r}, {p[2]!r})")
        if spec["anc"]:
            a = spec["anc"]
            for k, nm, un in zip(a["keys"], a["names"], a["units"]):
                if k in keys:
                    continue      # fit parameter label takes precedence
                lab = orc.must_work(lambda: (md.get_parm_name(k), md.get_parm_unit(k)), "lookup-raises", d,
                                    f"get_parm_name/unit({k!r})")
                orc.ok(lab == (nm, un), "parameter-name-unit", d, f"ancillary {k}: {lab!r} != ({nm!r}, {un!r})")
        got = pstate(md.get_parameter_defaults())
        want = [(p[0], p[3], -np.inf if p[4] is None else p[4], np.inf if p[5] is None else p[5], p[6], None)
                for p in spec["params"]]
        orc.ok(got == want, "parameter-defaults", d, f"defaults {got} != {want}")
    orc.ok(list(nmodel.get_anc_parm_keys(spec["key"])) == common + own, "ancillary-keys", dict(desc, source="registry"),
           f"nanite.model.get_anc_parm_keys = {nmodel.get_anc_parm_keys(spec['key'])}")
    orc.ok(nmodel.get_parm_name(spec["key"], "E") == "Young's Modulus" and
           nmodel.get_parm_unit(spec["key"], "E") == "Pa", "parameter-name-unit", dict(desc, source="registry"),
           "nanite.model.get_parm_name/unit('E')")
    orc.ok(pstate(nmodel.get_init_parms(spec["key"])) == pstate(md_p.get_parameter_defaults()), "parameter-defaults",
           dict(desc, source="registry"), "nanite.model.get_init_parms differs from the module defaults")

    # ---- behaviour on random inputs
    pvals = case["pvals"]
    x = x_desc[::-1].copy() if case["ascending"] else x_desc.copy()
    out = {}
    for tag, md in (("file", md_f), ("package", md_p)):
        d = dict(desc, source=tag)
        ncalls = len(md.module.CALLS)
        params = set_params(md, pvals)
        p_before, x_in = pstate(params), x.copy()
        f = orc.must_work(lambda: md.model(params, x_in), "model-raises", d, "model()")
        orc.ok(np.array_equal(x_in, x) and pstate(params) == p_before, "inputs-modified", d,
               "model() changed its abscissa or parameters")
        f_rev = orc.must_work(lambda: md.model(set_params(md, pvals), x[::-1].copy()), "model-raises", d, "model()")
        rs = np.random.RandomState(case["noise_seed"])
        frange = float(np.max(np.abs(f - pvals["baseline"]))) or 1e-30
        force = f + rs.normal(0, 0.05 * frange, size=f.size)
        force_in = force.copy()
        wcp = case["weight_cp"]
        res = orc.must_work(lambda: md.residual(set_params(md, pvals), x.copy(), force_in, wcp), "residual-raises",
                            d, "residual()")
        orc.ok(np.array_equal(force_in, force), "inputs-modified", d, "residual() changed the force array")
        out[tag] = (f, f_rev, res)
        want = ref_force(spec, pvals, x)
        orc.ok(f.shape == x.shape and np.all(np.abs(f - want) <= 1e-12 * (np.abs(want) + abs(pvals["baseline"]))),
               "model-wrapper", d, f"model() differs from the module's force law; max err "
               f"{np.max(np.abs(f - want)) if f.shape == x.shape else f.shape}")
        orc.ok(np.array_equal(f_rev[::-1], f), "model-wrapper", d, "model(x[::-1])[::-1] != model(x)")
        if spec["own_model"]:
            orc.ok(md.model is md.module.model and md.residual is md.module.residual, "own-functions-replaced", d,
                   "the module's own model/residual functions were replaced")
            orc.ok(len(md.module.CALLS) > ncalls, "own-functions-replaced", d, "own model() was not called")
            want_res = force - f
        else:
            orc.ok(callable(getattr(md.module, "model", None)) and callable(getattr(md.module, "residual", None)),
                   "default-wrappers", d, "module was not completed with model/residual")
            w = np.minimum(np.abs(x - pvals["contact_point"]) / wcp, 1.0) if wcp else np.ones_like(x)
            want_res = (force - f) * w
        orc.ok(np.all(np.abs(res - want_res) <= 4 * EPS * np.abs(want_res) + 1e-300),
               "default-wrappers" if not spec["own_model"] else "own-functions-replaced", d,
               f"residual() differs from the documented definition; max err {np.max(np.abs(res - want_res)):.3e}")
    for i, part in enumerate(("model", "model-reversed", "residual")):
        orc.ok(np.array_equal(out["file"][i], out["package"][i]), "file-vs-package", dict(desc, part=part),
               f"{part}: file-loaded and package-imported model differ, max "
               f"{np.max(np.abs(out['file'][i] - out['package'][i])):.3e}")

    # ---- ancillaries through the model object
    idnt = small_curve()
    anc = orc.must_work(lambda: md_p.compute_ancillaries(idnt), "ancillaries-raise", desc, "compute_ancillaries")
    orc.ok(list(anc) == common + own, "ancillary-keys", dict(desc, source="compute_ancillaries"),
           f"compute_ancillaries keys {list(anc)} != {common + own}")
    if spec["anc"]:
        for k, v in zip(spec["anc"]["keys"], spec["anc"]["values"]):
            orc.ok(same_float(anc[k], unjson_float(v)), "ancillary-values", desc, f"{k}: {anc[k]} != {v}")
    # ---- deregistration removes exactly that key
    orc.must_work(lambda: nmodel.deregister_model(md_p), "deregister-raises", {"call": "deregister"},
                  "deregister_model")
    orc.registry({"call": "deregister"}, names0, list(sb.reg0))


# --------------------------------------------------------------------------
# (d) ancillary seeding


@st.composite
def st_anc_case(draw):
    source = draw(st.sampled_from(["generated", "generated", "generated", "hmodels_expr"]))
    c = {"kind": "anc", "source": source, "common": draw(st.booleans()), "model_anc": draw(st.booleans()) or
         draw(st.booleans())}
    if source == "generated":
        c["spec"] = draw(st_spec(anc=True, key="c18_anc"))
    else:
        c["anc_e"] = draw(st.one_of(st.just("NaN"), st.floats(1.0, 1e6)))
    return c


def check_anc(case, ctx):
    if case["source"] == "generated":
        spec = case["spec"]
        fit_keys = [p[0] for p in spec["params"]]
        matching = [k for k in spec["anc"]["keys"] if k in fit_keys]
    else:
        matching = ["E"]
    ctx.note_case(case, nontrivial=bool(matching) and case["model_anc"],
                  classes=["anc", "anc_" + case["source"], "common" if case["common"] else "no_common",
                           "model_anc" if case["model_anc"] else "no_model_anc"])
    sb = Sandbox(ctx)
    try:
        _run_anc(case, ctx, sb)
    except _Abort:
        pass
    finally:
        sb.close()


def _run_anc(case, ctx, sb):
    from nanite import fit as nfit
    nmodel = sb.nmodel
    orc = Oracle(ctx, sb)
    desc = {"source": case["source"], "common": case["common"], "model_anc": case["model_anc"]}
    if case["source"] == "generated":
        spec = case["spec"]
        mod = module_from_source(render(spec), "c18_anc_object")
        key = spec["key"]
        anc = {k: unjson_float(v) for k, v in zip(spec["anc"]["keys"], spec["anc"]["values"])}
        defaults = {p[0]: p[3] for p in spec["params"]}
        exprs = {}
    else:
        from vlib import hmodels
        mod = hmodels.expr_module()
        mod.ANC_E = unjson_float(case["anc_e"])
        key = mod.model_key
        anc = {"E": mod.ANC_E, "verif_anc": 42.0}
        defaults = {"E": 3e3, "alpha": 25, "contact_point": 0, "baseline": 0}
        exprs = {"E2": 2.0}
    orc.must_work(lambda: nmodel.register_model(mod), "valid-register-raises", {"call": "register", "as": "module"},
                  "register_model(module with ancillaries)")
    idnt = small_curve()
    got_anc = orc.must_work(lambda: idnt.get_ancillary_parameters(model_key=key), "ancillaries-raise", desc,
                            "get_ancillary_parameters")
    for k, v in anc.items():
        orc.ok(k in got_anc and same_float(got_anc[k], v), "ancillary-values", desc,
               f"ancillary {k}: {got_anc.get(k)} != {v}")
    params = orc.must_work(lambda: idnt.get_initial_fit_parameters(
        model_key=key, common_ancillaries=case["common"], model_ancillaries=case["model_anc"]),
        "initial-parameters-raise", desc, "get_initial_fit_parameters")
    orc.ok(list(params.keys()) == list(mod.parameter_keys), "ancillary-seeding", dict(desc, what="keys"),
           f"initial parameter keys {list(params.keys())}")
    for k, dflt in defaults.items():
        seeded = case["model_anc"] and k in anc and anc[k] == anc[k]
        if seeded:
            orc.ok(params[k].value == anc[k], "ancillary-seeding", dict(desc, what="seeded"),
                   f"{k}: initial value {params[k].value!r}, ancillary value {anc[k]!r}")
            ctx.event("seeded_parameters")
        elif k == "contact_point" and case["common"]:
            orc.ok(np.isfinite(params[k].value), "ancillary-seeding", dict(desc, what="contact_point"),
                   f"estimated contact point {params[k].value!r}")
        else:
            orc.ok(params[k].value == dflt and not np.isnan(params[k].value), "ancillary-seeding",
                   dict(desc, what="nan" if (case["model_anc"] and k in anc) else "default"),
                   f"{k}: initial value {params[k].value!r}, default {dflt!r}, ancillary {anc.get(k)!r}")
            if case["model_anc"] and k in anc:
                ctx.event("nan_ancillaries_ignored")
    for k, fac in exprs.items():
        orc.ok(params[k].expr is not None and params[k].value == fac * params["E"].value, "ancillary-seeding",
               dict(desc, what="expression"), f"{k} = {params[k].value!r} (expr {params[k].expr!r})")
    # without a dataset the defaults are returned
    p0 = orc.must_work(lambda: nfit.guess_initial_parameters(None, model_key=key), "initial-parameters-raise", desc,
                       "guess_initial_parameters(None)")
    orc.ok(all(p0[k].value == v for k, v in defaults.items()), "ancillary-seeding", dict(desc, what="no-dataset"),
           "guess_initial_parameters(idnt=None) does not return the defaults")


# --------------------------------------------------------------------------
# shipped models: documented defaults


def check_builtin(case, ctx):
    from nanite import model as nmodel
    from nanite.model import core as ncore
    common = list(ncore.ANCILLARY_COMMON)
    for key, md in sorted(nmodel.models_available.items()):
        d = {"source": "registered"}
        own = list(md.module.parameter_anc_keys) if hasattr(md.module, "compute_ancillaries") else []
        ctx.check(md.model_key == key, "registry-contents", {"call": "import"}, f"{key} holds {md.model_key}")
        ctx.check(list(nmodel.get_anc_parm_keys(key)) == common + own, "ancillary-keys", d,
                  f"{key}: {nmodel.get_anc_parm_keys(key)} != {common + own}")
        ctx.check(len(md.parameter_keys) == len(md.parameter_names) == len(md.parameter_units)
                  and len(set(md.parameter_names)) == len(md.parameter_names)
                  and list(md.get_parameter_defaults().keys()) == list(md.parameter_keys), "model-attributes",
                  dict(d, attr="lists"), f"{key}: inconsistent parameter lists")
        for k, nm, un in zip(md.parameter_keys, md.parameter_names, md.parameter_units):
            ctx.check(nmodel.get_parm_name(key, k) == nm and nmodel.get_parm_unit(key, k) == un,
                      "parameter-name-unit", d, f"{key}.{k}")
        ctx.check(callable(md.model) and callable(md.residual) and md.model is md.module.model
                  and md.residual is md.module.residual, "default-wrappers", d, f"{key}: model/residual not attached")
    ctx.extra["baseline_models"] = sorted(nmodel.models_available)


# --------------------------------------------------------------------------


def check_partial_own(case, ctx):
    """a module that brings only ONE of model / residual keeps it and gets the documented default for the
    other one (register_model / NaniteFitModel / re-registration under the same key with another function)"""
    import types
    import lmfit
    from nanite import model as nmodel
    from nanite.model.core import NaniteFitModel

    def make(part, power, key="c18_partial"):
        m = types.ModuleType("c18_partial_" + part)
        calls = []

        def get_parameter_defaults():
            p = lmfit.Parameters()
            p.add("E", value=3e3, min=0)
            p.add("contact_point", value=0)
            p.add("baseline", value=0)
            return p

        def model_func(delta, E, contact_point=0, baseline=0):
            d = contact_point - delta
            return E * np.where(d > 0, d, 0.0) ** power + baseline

        def own_model(params, x):
            calls.append("model")
            return model_func(x, **params.valuesdict()) + 1e-9      # recognisable: differs from the default

        def own_residual(params, delta, force, weight_cp=5e-7):
            calls.append("residual")
            return (force - model_func(delta, **params.valuesdict())) * 2.0

        m.get_parameter_defaults, m.model_func = get_parameter_defaults, model_func
        m.model_doc, m.model_key, m.model_name = "partial", key, "c18 partial " + part
        m.parameter_keys = ["E", "contact_point", "baseline"]
        m.parameter_names = ["Young's Modulus", "Contact Point", "Force Baseline"]
        m.parameter_units = ["Pa", "m", "N"]
        m.valid_axes_x, m.valid_axes_y = ["tip position"], ["force"]
        if part in ("model", "both"):
            m.model = own_model
        if part in ("residual", "both"):
            m.residual = own_residual
        return m, calls, own_model, own_residual, model_func

    part, power = case["part"], case["power"]
    ctx.note_case(case, nontrivial=True, classes=["partial_own", "partial_own:" + part])
    desc = {"wrappers": "own-" + part, "route": case["route"]}
    x = np.linspace(1e-6, -1e-6, 41)
    force = np.linspace(0, 1e-9, 41)
    before = dict(nmodel.models_available)
    try:
        if case["route"] == "reregister":
            # another module was registered under this key before (default wrappers, other force law)
            m0, *_ = make("none", power + 0.5)
            nmodel.register_model(m0)
            nmodel.models_available[m0.model_key].model(m0.get_parameter_defaults(), x)
            nmodel.deregister_model(nmodel.models_available[m0.model_key])
        m, calls, own_model, own_residual, func = make(part, power)
        md = nmodel.register_model(m) if case["route"] != "instance" else NaniteFitModel(m)
        p = m.get_parameter_defaults()
        f = md.model(p, x)
        r = md.residual(p, x, force, 0)
        plain = func(x, **p.valuesdict())
        if part in ("model", "both"):
            ctx.check(md.model is own_model and "model" in calls and np.array_equal(f, plain + 1e-9),
                      "own-functions-replaced", desc, "the module's own model() was replaced or not used")
        else:
            ctx.check(np.array_equal(f, plain), "default-wrappers", desc, "default model wrapper differs from model_func")
        if part in ("residual", "both"):
            ctx.check(md.residual is own_residual and "residual" in calls and np.array_equal(r, (force - plain) * 2.0),
                      "own-functions-replaced", desc, "the module's own residual() was replaced or not used")
        else:
            ctx.check(np.allclose(r, force - plain, rtol=1e-12, atol=0), "default-wrappers", desc,
                      "default residual wrapper is not force - model_func (weights off)")
    finally:
        for k in list(nmodel.models_available):
            if k not in before:
                nmodel.models_available.pop(k)


def partial_cases():
    for part in ("none", "model", "residual", "both"):
        for route in ("register", "instance", "reregister"):
            for power in (1.5, 2.0):
                yield {"kind": "partial_own", "part": part, "route": route, "power": power}


def run(ctx):
    if ctx.shard == 0:
        ctx.direct(check_builtin, {"kind": "builtin"}, label="builtin")
    ctx.enumerate(partial_cases(), check_partial_own, label="partial-own", stop_after=6)
    ctx.enumerate(pinned_histories(), check_history, label="history-pinned", stop_after=40)
    ctx.enumerate(mutant_cases(), check_mutant, label="mutant-enum", stop_after=12)
    ctx.hypothesis(st_mutant(), check_mutant, ctx.scale(2000, 20000), label="mutant")
    ctx.hypothesis(st_history(), check_history, ctx.scale(2000, 30000), label="history")
    ctx.hypothesis(st_equiv(), check_equiv, ctx.scale(1000, 12000), label="equiv")
    ctx.hypothesis(st_anc_case(), check_anc, ctx.scale(1600, 20000), label="anc")


def replay(case, ctx):
    kind = case.get("kind") if isinstance(case, dict) else None
    fn = {"mutant": check_mutant, "history": check_history, "equiv": check_equiv, "anc": check_anc,
          "builtin": check_builtin, "partial_own": check_partial_own}.get(kind)
    if fn is None:
        raise HarnessError(f"C18 replay: unknown case kind {kind!r}")
    fn(case, ctx)
