"""C20 — loading yields one object per recorded curve; maps put values at their pixel.

Three generated case kinds (all JSON records, interpreted by a plain oracle):

``load``    a folder (optionally nested) of synthetic HDF5 measurement files, recorded
            files copied from tests/data and junk files; loaded as a whole or file by file
            through ``nanite.load_group`` / ``nanite.IndentationGroup`` with a progress
            callback and a metadata override.
``append``  one in-memory curve with / without spring constant and tip position offered
            to ``IndentationGroup.append`` / ``+=``.
``qmap``    one map file (synthetic grid up to 4x4 with scrambled scan order and missing
            pixels, or a recorded map) and a history of fit / rate / re-preprocess / map
            operations on arbitrary curves; after the history (and wherever the history
            says so) every feature map is compared pixel by pixel with the curves' state.

The grid pixel of a synthetic curve is what the generator decided; it is re-derived in the
oracle from the metadata that went into the file (``grid index x/y`` when written, else
floor((position - (center - size/2)) / (size/shape))), for recorded maps from the
position/size/shape/center metadata the same way.
"""
import math
import os
import pathlib
import re
import shutil
import warnings
import zipfile

import numpy as np
from hypothesis import strategies as st

from vlib import synth
from vlib.runner import HarnessError, fingerprint

PROPERTY = "C20"
#: nanite.read.load_data documents "list of str or list of pathlib.Path" for `path` but raises
#: TypeError for a list (afmformats.find_data takes one path). The property quantifies over
#: "file or folder", so this observation is outside C20 and the branch is switched off
#: (described in DESIGN.md section 5, observations outside the listed properties).
LIST_OF_PATHS = False
SHARDS = {"quick": 8, "thorough": 16}
RULE = ("Hypothesis draws (a) folders of 1-5 files: synthetic HDF5 files with 1-12 curves (optional grid "
        "metadata, curves with/without spring constant and innate tip position), recorded files from "
        "tests/data (19 JPK files: 13 single curves, 6 maps; the AFM-workshop CSV), junk files, nesting depth 0-2, target = "
        "folder or one file, API load_group / IndentationGroup, metadata override, or a list of 1-3 files/sub-folders given to nanite.read.load_data (documented input); (b) one curve x "
        "{spring constant present/absent} x {tip position present/absent} x {append, +=} on an empty or "
        "populated group; (c) a map file (synthetic: grid 1x1..4x4, 1-12 curves on distinct pixels in "
        "scrambled order, grid index written or derived from position with +-0.3 px jitter, off-centre "
        "non-square extents; or one of 3 recorded maps), API QMap(load_group) / QMap(IndentationGroup) / "
        "QMap(path), an initial subset of curves fitted (and a subset of those rated), then a history of 0-16 operations fit(curve, one of 5 shipped models incl. power_layer_clifford_2009 which has no parameter E, preprocessing, weight_cp, segment) / "
        "rate(curve, regressor) / preprocess(curve, steps) / map(feature); all three feature maps are checked "
        "after the history. non-trivial = (a) at least one curve expected or a refusal expected, (b) every "
        "case, (c) at least one fit executed and one finite map value compared; distinct = distinct case record")
ASSUMPTIONS = [
    "afmformats (find_data, the format readers, AFMQMap._map_grid/get_coords, MetaData) is the trusted substrate: "
    "the order of files in a folder is afmformats.find_data(path, modality='force-distance'); the order of curves "
    "inside an HDF5 file is h5py's native (name-sorted: 0, 1, 10, 11, 2 ...) group order, inside a JPK map the "
    "numeric order of its index/<n>/ zip entries",
    "the number and enumerations of recorded curves are counted independently: JPK files by their zip entries, "
    "the AFM-workshop CSV by its 'Point:' header line, synthetic files by what the harness wrote",
    "every afmformats reader reports 1.0 as its last callback value (checked for all 11 readers of afmformats "
    "2024 as installed), therefore the last value seen by a load_group callback is asserted to be 1 when at "
    "least one data file was found (as tests/test_read.py expects)",
    "metadata override keys are restricted to those every involved reader applies verbatim (setpoint, speed "
    "approach, instrument, session id; spring constant only when no HDF5 file is involved because the HDF5 "
    "reader rejects it with NotImplementedError)",
    "a fit whose fit_properties['success'] is False counts as 'unfitted' (docstring of Indentation.fit_model); "
    "'rating' is the value returned by the curve's latest rate_quality() call, forgotten when the preprocessing "
    "step list changes (apply_preprocessing documents 'Reset rating')",
    "map values are compared with relative tolerance 1e-12 (the unit conversion cp*1e9 is one multiplication; "
    "1e-12 allows for a different but equivalent formulation such as cp/1e-9)",
    "a curve fitted with a model that has no parameter named 'E' (shipped: power_layer_clifford_2009 with E_S/E_L; "
    "user models) has no value for 'fit: Young's modulus': its pixel is NaN with one DataMissingWarning and the "
    "map of the other curves is still delivered (the fitter's plateau search sets the precedent: it rejects such "
    "models with a message instead of a KeyError)",
    "rate_quality is only called on curves that are currently fitted (rating an unfitted, preprocessed curve "
    "raises KeyError: listed defect F6 of property C09/C17, not part of this property)",
    "exceptions raised by fit_model itself are not this property's business: the operation is counted "
    "(classes.fit_raised) and the oracle continues from the curve's actual state",
]

FEATURES = {"E": "fit: Young's modulus", "cp": "fit: contact point", "rating": "fit: rating"}
#: the last one has no parameter named "E" (its moduli are E_S and E_L)
MODELS = ["hertz_para", "hertz_cone", "power_layer_clifford_2009", "sneddon_spher_approx", "hertz_pyr3s"]
PRE = [["compute_tip_position"],
       ["compute_tip_position", "correct_force_offset"],
       ["compute_tip_position", "correct_force_offset", "correct_tip_offset"],
       ["compute_tip_position", "correct_tip_offset"]]
REGRESSORS = ["Decision Tree", "SVR (linear kernel)"]
WEIGHT_CP = [None, 0, 1e-6]
SEGMENTS = [None, "retract"]
#: geometrical correction factor of the fit (fit_model keyword gcf_k); the fitted contact point a curve reports
#: (and a map shows) is in measured coordinates whatever the factor
GCF_K = [1.0, 1.0, 0.5, 2.0, 1.0]

RECORDED_SINGLE = [
    "fmt-jpk-fd_flipsign_2015.05.22-15.31.49.352.jpk-force",
    "fmt-jpk-fd_single_bad_2017-01-16_1.jpk-force",
    "fmt-jpk-fd_single_bad_2017-01-16_2.jpk-force",
    "fmt-jpk-fd_single_bad_2017-01-16_3.jpk-force",
    "fmt-jpk-fd_single_bad_2017-01-16_4.jpk-force",
    "fmt-jpk-fd_single_bad_2017-01-16_5.jpk-force",
    "fmt-jpk-fd_single_bad_GWAT_2017-10-17.jpk-force",
    "fmt-jpk-fd_single_bad_bead10_2017-04-27.jpk-force",
    "fmt-jpk-fd_single_bad_bead46_2017-04-20.jpk-force",
    "fmt-jpk-fd_single_bad_bead7_2017-04-27.jpk-force",
    "fmt-jpk-fd_single_tilted-baseline-drift-mitotic_2021-01-29.jpk-force",
    "fmt-jpk-fd_single_tilted-baseline-shift-adyp_2023-06-26.jpk-force",
    "fmt-jpk-fd_spot3-0192.jpk-force",
]
RECORDED_MAPS = [
    "fmt-jpk-fd_map2x2_extracted.jpk-force-map",
    "fmt-jpk-fd_map-data-reference-points.jpk-force-map",
    "fmt-jpk-fd_map1d_2016-11-07.jpk-force-map",
]
RECORDED_MAPS_MORE = [
    "fmt-jpk-fd_map0d_extracted.jpk-force-map",
    "fmt-jpk-fd_map_bad_2013-05-27_1.jpk-force-map",
    "fmt-jpk-fd_map_bad_2013-05-27_2.jpk-force-map",
]
RECORDED_CSV = "fmt-afm-workshop-fd_single_2021-10-22_14.16.csv"
JUNK = ["notes.md", "readme.txt", "broken.h5", "foreign.h5", "table.tab"]
#: metadata keys that every involved reader takes over verbatim from meta_override
OVERRIDE_KEYS_SAFE = ["setpoint", "speed approach", "instrument", "session id"]


def data_dir():
    return pathlib.Path(os.environ.get("VERIF_REPO", "/repo")) / "tests" / "data"


# ---------------------------------------------------------------------------
# strategies

@st.composite
def st_cv(draw, sizes=("small", "big"), lacking=False):
    """compact curve record"""
    size = draw(st.sampled_from(list(sizes)))
    n_app = draw(st.integers(600, 680)) if size == "big" else draw(st.integers(100, 200))
    depth = draw(st.floats(0.4e-6, 1.5e-6))
    if lacking:
        has_k, with_tip = False, False
    else:
        has_k, with_tip = draw(st.sampled_from([(True, False), (True, False), (True, True), (False, True)]))
    return {"E": 10.0 ** draw(st.floats(2.3, 4.7)),
            "cp": draw(st.sampled_from([1.0, -1.0])) * draw(st.floats(2e-8, 2e-6)),
            "n_app": n_app, "n_ret": draw(st.integers(60, 140)),
            "depth": depth, "z0": depth * draw(st.floats(0.8, 2.5)),
            "k": draw(st.floats(0.02, 0.5)),
            "noise": draw(st.sampled_from([1e-3, 5e-3, 2e-2, 5e-2, 0.15])),
            "seed": draw(st.integers(0, 2 ** 16)),
            "tilt": draw(st.sampled_from([0.0, 0.0, 0.05, 0.2])),
            "has_k": has_k, "with_tip": with_tip}


@st.composite
def st_grid(draw):
    nx, ny = draw(st.integers(1, 4)), draw(st.integers(1, 4))
    return {"nx": nx, "ny": ny,
            "cx": draw(st.sampled_from([0.0, 3.1e-4, -1.16e-3])),
            "cy": draw(st.sampled_from([0.0, -4.8e-4, 2.5e-5])),
            "psx": draw(st.sampled_from([1e-6, 1e-5, 6e-5])),
            "psy": draw(st.sampled_from([1e-6, 2.5e-6, 6e-5])),
            "mode": draw(st.sampled_from(["index", "position"]))}


@st.composite
def st_synth_file(draw, with_grid=None, sizes=("small", "big"), p_lacking=False, max_curves=12):
    """{'grid': grid or None, 'curves': [cv + px + jit]}"""
    use_grid = draw(st.booleans()) if with_grid is None else with_grid
    grid = draw(st_grid()) if use_grid else None
    if grid:
        cells = [[x, y] for y in range(grid["ny"]) for x in range(grid["nx"])]
        order = draw(st.permutations(cells))
        n = draw(st.integers(1, min(max_curves, len(cells))))
        pix = order[:n]
    else:
        n = draw(st.integers(1, max_curves))
        pix = [None] * n
    curves = []
    # at most one curve of the file lacks both spring constant and tip position
    # (sampled_from over-represents the first and last element: the rare choice sits in the middle)
    lack = p_lacking and draw(st.sampled_from([False] * 5 + [True] + [False] * 5))
    i_lack = draw(st.integers(0, n - 1)) if lack else -1
    for i in range(n):
        cv = draw(st_cv(sizes=sizes, lacking=(i == i_lack)))
        if grid:
            cv["px"] = list(pix[i])
            cv["jit"] = ([0.0, 0.0] if grid["mode"] == "index" or draw(st.booleans())
                         else [draw(st.floats(-0.3, 0.3)), draw(st.floats(-0.3, 0.3))])
        curves.append(cv)
    return {"grid": grid, "curves": curves}


@st.composite
def st_load_case(draw):
    nfiles = draw(st.integers(1, 5))
    dirs = [[], [], ["a"], ["a", "b"], ["c"], ["c", "d"]]
    files = []
    for i in range(nfiles):
        t = draw(st.sampled_from(["synth", "synth", "rec", "junk", "recmap", "csv", "synth", "junk", "recmap", "rec", "rec", "synth"]))
        ent = {"t": t, "dir": draw(st.sampled_from(dirs)), "stem": draw(st.sampled_from(["m", "zz", "A", "0", "x y"])),
               "plain": draw(st.booleans())}
        if t == "synth":
            ent["file"] = draw(st_synth_file(sizes=("small",), p_lacking=True))
        elif t == "rec":
            ent["name"] = draw(st.sampled_from(RECORDED_SINGLE))
        elif t == "recmap":
            ent["name"] = draw(st.sampled_from(RECORDED_MAPS + RECORDED_MAPS_MORE))
        elif t == "junk":
            ent["name"] = draw(st.sampled_from(JUNK))
        files.append(ent)
    target = draw(st.sampled_from(["file", "dir", "dir", "dir", "file"]))
    if target == "file":
        target = draw(st.integers(0, nfiles - 1))
    if LIST_OF_PATHS and draw(st.sampled_from([False, False, False, True, False, False, False])):
        # a list of files / sub-folders handed to nanite.read.load_data
        for ent in files:
            if ent["t"] == "csv":
                ent["t"], ent["name"] = "rec", RECORDED_SINGLE[-1]
            if ent["t"] == "synth":
                for cv in ent["file"]["curves"]:
                    cv["has_k"] = True
        choice = st.one_of(st.integers(0, nfiles - 1), st.sampled_from([["a"], ["c"], ["a", "b"], []]))
        return {"kind": "load", "files": files, "target": draw(st.lists(choice, min_size=1, max_size=3)),
                "as_str": draw(st.booleans())}
    ov = draw(st.sampled_from(["safe", "none", "k", "none", "k+safe"]))
    override = {}
    if "safe" in ov:
        for key in draw(st.lists(st.sampled_from(OVERRIDE_KEYS_SAFE), min_size=1, max_size=3, unique=True)):
            override[key] = ("verif-" + str(draw(st.integers(0, 99))) if key in ("instrument", "session id")
                             else draw(st.floats(1e-9, 1e-5)))
    if "k" in ov:
        override["spring constant"] = draw(st.floats(0.01, 20.0))
    return {"kind": "load", "files": files, "target": target, "override": override or None,
            "api": draw(st.sampled_from(["load_group", "IndentationGroup"])),
            "with_callback": draw(st.sampled_from([True, True, True, False])),
            "as_str": draw(st.booleans())}


@st.composite
def st_append_case(draw):
    cv = draw(st_cv(sizes=("small",)))
    cv["has_k"], cv["with_tip"] = draw(st.booleans()), draw(st.booleans())
    return {"kind": "append", "curve": cv,
            "how": draw(st.sampled_from(["append", "iadd", "iadd_group"])),
            "prefill": draw(st.integers(0, 2)),
            "source": draw(st.sampled_from(["memory", "memory", "file"]))}


def st_ops(max_ops):
    c = st.integers(0, 11)
    pre = st.integers(0, len(PRE) - 1)
    fit = st.fixed_dictionaries({"op": st.just("fit"), "c": c, "model": st.integers(0, len(MODELS) - 1), "pre": pre,
                                 "wcp": st.integers(0, len(WEIGHT_CP) - 1), "seg": st.integers(0, len(SEGMENTS) - 1),
                                 "gcf": st.integers(0, len(GCF_K) - 1)})
    fit0 = st.fixed_dictionaries({"op": st.just("fit"), "c": c, "model": st.just(0), "pre": st.just(0),
                                  "wcp": st.just(0), "seg": st.just(0)})
    rate = st.fixed_dictionaries({"op": st.just("rate"), "c": c, "reg": st.integers(0, len(REGRESSORS) - 1)})
    prep = st.fixed_dictionaries({"op": st.just("pre"), "c": c, "pre": pre})
    mp = st.fixed_dictionaries({"op": st.just("map"), "feat": st.sampled_from(sorted(FEATURES))})
    # a multi-pass fit whose first pass succeeds and whose last pass has too few points: the curve then carries
    # success=False next to parameters of the earlier pass and counts as unfitted
    fitfail = st.fixed_dictionaries({"op": st.just("fit"), "c": c, "model": st.just(0), "pre": st.just(0),
                                     "wcp": st.just(0), "seg": st.just(0), "fail": st.sampled_from(["relcp", "abs"])})
    # a preprocessing request that is rejected (missing prerequisite / unknown step): the curve is then neither
    # preprocessed, fitted nor rated
    prebad = st.fixed_dictionaries({"op": st.just("pre_bad"), "c": c, "bad": st.sampled_from([
        ["correct_tip_offset"], ["compute_tip_position", "no_such_step"], ["correct_force_slope", "compute_tip_position"]])})
    op = st.one_of(fit0, fit0, fit, fit, fit, rate, rate, rate, prep, mp, fitfail, prebad)
    return st.sampled_from([0, 3, 8]).flatmap(lambda m: st.lists(op, min_size=m, max_size=max_ops))


@st.composite
def st_qmap_case(draw):
    source = draw(st.sampled_from(["synth", "synth", "synth", "synth", "recorded"]))
    case = {"kind": "qmap", "source": source,
            "api": draw(st.sampled_from(["load_group", "IndentationGroup", "QMap_path"]))}
    if source == "synth":
        case["file"] = draw(st_synth_file(with_grid=True))
    else:
        case["name"] = draw(st.sampled_from(RECORDED_MAPS))
    # an initial subset of the curves fitted with the plain settings, a subset of those rated,
    # then the free history (all of it is one op list, interpreted by the oracle)
    n = len(case["file"]["curves"]) if source == "synth" else 8
    fitted = [j for j in range(n) if draw(st.booleans())]
    rated = [j for j in fitted if draw(st.booleans())]
    pre_ops = [{"op": "fit", "c": j, "model": 0, "pre": 0, "wcp": 0, "seg": 0,
                "gcf": draw(st.integers(0, len(GCF_K) - 1))} for j in fitted]
    reg = draw(st.integers(0, len(REGRESSORS) - 1))
    pre_ops += [{"op": "rate", "c": j, "reg": reg} for j in rated]
    case["ops"] = pre_ops + draw(st_ops(16))
    return case


# ---------------------------------------------------------------------------
# writing files

def to_synth(cv, enum=0, meta=None):
    c = synth.base_case("hertz_para", params={"E": cv["E"], "R": 10e-6, "nu": 0.5, "contact_point": cv["cp"]},
                        n_app=cv["n_app"], n_ret=cv["n_ret"], z0=cv["z0"], depth=cv["depth"], k=cv["k"],
                        noise=cv["noise"], noise_seed=cv["seed"], tilt=cv.get("tilt", 0.0),
                        with_tip=cv["with_tip"], enum=enum)
    if meta:
        c["meta"] = meta
    return c


def grid_meta(grid, cv):
    """the qmap metadata written for one curve (positions from the intended pixel)"""
    md = {}
    for ax, n, c, ps, i in (("x", grid["nx"], grid["cx"], grid["psx"], 0), ("y", grid["ny"], grid["cy"], grid["psy"], 1)):
        size = n * ps
        md[f"grid center {ax}"] = c
        md[f"grid shape {ax}"] = n
        md[f"grid size {ax}"] = size
        md[f"position {ax}"] = c - size / 2 + (cv["px"][i] + 0.5 + cv["jit"][i]) * ps
        if grid["mode"] == "index":
            md[f"grid index {ax}"] = cv["px"][i]
    return md


def pixel_from_meta(md):
    """independent derivation of a curve's pixel from qmap metadata (dict-like)"""
    out = []
    for ax in "xy":
        if f"grid index {ax}" in md and md.get("_index_written", True):
            out.append(int(md[f"grid index {ax}"]))
        else:
            n = int(md[f"grid shape {ax}"])
            lo = md[f"grid center {ax}"] - md[f"grid size {ax}"] / 2
            out.append(int(math.floor((md[f"position {ax}"] - lo) / (md[f"grid size {ax}"] / n))))
    return out


def write_synth_file(path, spec):
    """write the file; returns the list of metadata dicts that were written (per curve)"""
    import h5py
    metas = []
    with h5py.File(path, "w") as h5:
        for e, cv in enumerate(spec["curves"]):
            meta = grid_meta(spec["grid"], cv) if spec["grid"] else {}
            idnt = synth.build(to_synth(cv, enum=e, meta=meta), path=path)
            keys = ["imaging mode", "point count"] + (["spring constant"] if cv["has_k"] else []) + list(meta)
            idnt.export_data(h5, fmt="hdf5", metadata=keys)
            metas.append(meta)
    return metas


def write_junk(path, name):
    if name == "broken.h5":
        path.write_bytes(b"this is not an HDF5 file\n" * 4)
    elif name == "foreign.h5":
        import h5py
        with h5py.File(path, "w") as h5:     # HDF5, but not an afmformats measurement file
            h5.create_group("0").attrs["imaging mode"] = "force-distance"
            h5.attrs["creator"] = "verif"
    elif name == "table.tab":
        path.write_text("# something\n1\t2\t3\n4\t5\t6\n")
    else:
        path.write_text("some notes, not a measurement\n0.1 0.2 0.3\n")


def recorded_enums(path):
    """independent enumeration of the curves of a recorded file"""
    path = pathlib.Path(path)
    if path.suffix == ".csv":
        for line in path.read_text(encoding="utf-8").split("\n"):
            if line.startswith("Point:"):
                return [int(line.split(":")[1])]
        raise HarnessError(f"no Point: line in {path}")
    with zipfile.ZipFile(path) as z:
        names = z.namelist()
    idx = sorted({int(m.group(1)) for m in (re.match(r"^index/(\d+)/", n) for n in names) if m})
    if not idx:
        if not any(n.startswith("segments/") for n in names):
            raise HarnessError(f"unexpected JPK archive layout in {path}")
        return [0]
    return idx


def fresh_dir(ctx, case):
    ctx._c20_n = getattr(ctx, "_c20_n", 0) + 1
    d = ctx.workdir / f"c20_{ctx._c20_n}_{fingerprint(case)}"
    if d.exists():
        shutil.rmtree(d)
    d.mkdir(parents=True)
    return d


# ---------------------------------------------------------------------------
# (a) loading

def check_callbacks(ctx, cb, desc, expect_complete):
    vals = list(cb)
    ok_type = all(isinstance(v, (int, float, np.floating, np.integer)) for v in vals)
    ctx.check(ok_type and all(0 <= v <= 1 for v in vals), "callback-range", desc, f"callback values {vals}")
    ctx.check(all(b >= a for a, b in zip(vals, vals[1:])), "callback-monotone", desc, f"callback values {vals}")
    if expect_complete:
        ctx.check(len(vals) > 0 and vals[-1] == 1, "callback-ends-at-1", desc, f"callback values {vals}")


def check_load(case, ctx):
    import afmformats
    from afmformats.errors import MissingMetaDataError
    import nanite
    root = fresh_dir(ctx, case)
    try:
        _check_load(case, ctx, root, afmformats, MissingMetaDataError, nanite)
    finally:
        shutil.rmtree(root, ignore_errors=True)


def _check_load(case, ctx, root, afmformats, MissingMetaDataError, nanite):
    base = root / "data"
    base.mkdir()
    written = []      # (path, type, expected enums in file order, lacking?, is_h5)
    for i, ent in enumerate(case["files"]):
        d = base.joinpath(*ent["dir"])
        d.mkdir(parents=True, exist_ok=True)
        t = ent["t"]
        # plain names: files in different sub-folders may carry the same name (instruments restart numbering)
        pfx = "" if ent.get("plain") else f"f{i}_"
        if t == "synth":
            p = d / f"{pfx}{ent['stem']}.h5"
            if p.exists():
                p = d / f"f{i}_{ent['stem']}.h5"
            write_synth_file(p, ent["file"])
            n = len(ent["file"]["curves"])
            enums = sorted(range(n), key=str)      # h5py native order of the groups "0", "1", "10", ...
            lacking = any(not cv["has_k"] and not cv["with_tip"] for cv in ent["file"]["curves"])
            written.append((p, t, enums, lacking))
        elif t in ("rec", "recmap", "csv"):
            name = RECORDED_CSV if t == "csv" else ent["name"]
            sfx = ''.join(pathlib.Path(name).suffixes[-1:])
            p = d / f"{pfx}{ent['stem']}{sfx}"
            if p.exists():
                p = d / f"f{i}_{ent['stem']}{sfx}"
            shutil.copy(data_dir() / name, p)
            written.append((p, t, recorded_enums(p), t == "csv"))
        else:
            p = d / f"f{i}_{ent['name']}"
            write_junk(p, ent["name"])
            written.append((p, t, None, False))
    if isinstance(case["target"], list):
        return _check_load_list(case, ctx, base, written, afmformats, nanite)
    if case["target"] == "dir":
        target = base
        involved = [w for w in written if w[1] != "junk"]
    else:
        w = written[case["target"]]
        target = w[0]
        involved = [w] if w[1] != "junk" else []
    override = dict(case["override"]) if case["override"] else None
    has_h5 = any(w[1] == "synth" for w in involved)
    if override and has_h5:
        # the HDF5 reader of afmformats rejects this key (NotImplementedError): not nanite's business
        override.pop("spring constant", None)
        override = override or None
    api = case["api"]
    if api == "IndentationGroup" and (target.is_dir() or not involved):
        # AFMGroup(path) hands the path to afmformats.load_data, which is defined for measurement
        # files only (ValueError for a folder or an unsupported file)
        api = "load_group"
    k_given = bool(override and "spring constant" in override)
    refuse = any(w[3] for w in involved if w[1] == "synth") or (any(w[1] == "csv" for w in involved) and not k_given)
    n_expect = sum(len(w[2]) for w in involved)
    desc = {"api": api, "target": "folder" if target.is_dir() else "file",
            "override": sorted(override) if override else []}
    ctx.note_case(case, nontrivial=bool(n_expect),
                  classes=[f"load:{desc['target']}", f"load:api={api}", f"load:files={len(involved)}",
                           "load:refusal-expected" if refuse else "load:accepted",
                           "load:override" if override else "load:no-override"]
                  + sorted({f"load:has-{w[1]}" for w in involved})
                  + (["load:equal-names-in-different-folders"]
                     if len({w[0].name for w in involved}) < len(involved) else []))

    # substrate: order of the files
    found = afmformats.find_data(target, modality="force-distance")
    if sorted(found) != sorted(w[0] for w in involved):
        raise HarnessError(f"afmformats.find_data returned {found}, harness wrote {[w[0] for w in involved]}")
    by_path = {w[0]: w for w in involved}
    expected = [(p, e) for p in found for e in by_path[p][2]]

    cb = []
    kwargs = {}
    if case["with_callback"]:
        kwargs["callback"] = cb.append
    if override:
        kwargs["meta_override"] = dict(override)
    loader = nanite.load_group if api == "load_group" else nanite.IndentationGroup
    grp = None
    target_arg = str(target) if case.get("as_str") else target
    if refuse:
        try:
            loader(target_arg, **kwargs)
            raised = None
        except MissingMetaDataError as exc:
            raised = exc
        except (KeyboardInterrupt, SystemExit, MemoryError):
            raise
        except BaseException as exc:  # noqa
            ctx.fail("refusal-wrong-exception", dict(desc, exception=type(exc).__name__),
                     f"expected MissingMetaDataError, got {type(exc).__name__}: {str(exc)[:200]}")
            raised = exc
        ctx.check(raised is not None, "curve-without-spring-constant-and-tip-accepted", desc,
                  "a file with a curve that has neither spring constant nor tip position was loaded into a group")
        check_callbacks(ctx, cb, desc, expect_complete=False)
        return
    with ctx.no_raise("load-raises", desc):
        grp = loader(target_arg, **kwargs)
    if grp is None:
        return
    got = [(pathlib.Path(i.path), i.enum) for i in grp]
    ctx.check(len(grp) == n_expect, "curve-count", desc,
              f"{len(grp)} objects for {n_expect} recorded curves ({[(p.name, e) for p, e in got]})")
    ctx.check(all(type(i) is nanite.Indentation or isinstance(i, nanite.Indentation) for i in grp)
              and isinstance(grp, nanite.IndentationGroup), "object-class", desc,
              f"classes {sorted({type(i).__name__ for i in grp})} in {type(grp).__name__}")
    ctx.check(got == expected, "curve-order", desc,
              f"loaded {[(p.name, e) for p, e in got]}, expected {[(p.name, e) for p, e in expected]}")
    for p in found:
        en = [e for q, e in got if q == p]
        ctx.check(len(en) == len(set(en)), "enum-not-unique", desc, f"{p.name}: enumerations {en}")
    ctx.check(all(i.metadata["imaging mode"] == "force-distance" for i in grp), "modality", desc, "not force-distance")
    ctx.check(grp.path is not None and pathlib.Path(grp.path) == target, "group-path", desc,
              f"group.path = {grp.path}, loaded {target}")
    if case["with_callback"]:
        check_callbacks(ctx, cb, desc, expect_complete=bool(found))
    if override:
        for i in grp:
            md = i.metadata
            for key, val in override.items():
                ctx.check(key in md and md[key] == val, "meta-override-not-applied", dict(desc, key=key),
                          f"{pathlib.Path(i.path).name}[{i.enum}]: metadata[{key!r}] = {md.get(key)!r}, override {val!r}")
    # the precondition of the group holds for every member
    for i in grp:
        ctx.check("spring constant" in i.metadata or "tip position" in i, "member-without-spring-constant-and-tip",
                  desc, f"{pathlib.Path(i.path).name}[{i.enum}]")
    ctx.extra["curves_loaded"] = ctx.extra.get("curves_loaded", 0) + len(grp)
    # read.get_data_paths_enum: "a list with paths and their internal enumeration"
    pe = None
    with ctx.no_raise("paths-enum-raises", desc):
        pe = nanite.read.get_data_paths_enum(target)
    if pe is not None:
        ctx.check([(pathlib.Path(a), b) for a, b in pe] == expected, "paths-enum", desc,
                  f"get_data_paths_enum: {[(pathlib.Path(a).name, b) for a, b in pe]}, "
                  f"expected {[(q.name, e) for q, e in expected]}")


def _check_load_list(case, ctx, base, written, afmformats, nanite):
    """nanite.read.load_data documents `path` as "str or pathlib.Path or list of str or list of
    pathlib.Path": a list of files and/or folders (entries: index into files, or a sub-folder name)"""
    entries = []
    for t in case["target"]:
        entries.append(written[t % len(written)][0] if isinstance(t, int) else base.joinpath(*t))
    entries = [e for e in entries if e.exists()]
    by_path = {w[0]: w for w in written if w[1] != "junk"}
    expected = []
    for ent in entries:
        for f in afmformats.find_data(ent, modality="force-distance"):
            if f not in by_path:
                raise HarnessError(f"afmformats.find_data found {f}, not written by the harness")
            expected += [(f, e) for e in by_path[f][2]]
    desc = {"api": "read.load_data", "target": "list", "as_str": bool(case.get("as_str"))}
    ctx.note_case(case, nontrivial=bool(expected), classes=["load:list-of-paths", f"load:list-len={len(entries)}"])
    arg = [str(e) for e in entries] if case.get("as_str") else list(entries)
    cb = []
    data = None
    with ctx.no_raise("load-list-of-paths-raises", desc):
        data = nanite.read.load_data(arg, callback=cb.append)
    if data is None:
        return
    got = [(pathlib.Path(i.path), i.enum) for i in data]
    ctx.check(got == expected and all(isinstance(i, nanite.Indentation) for i in data), "curve-order", desc,
              f"loaded {[(q.name, e) for q, e in got]}, expected {[(q.name, e) for q, e in expected]}")
    check_callbacks(ctx, cb, desc, expect_complete=bool(expected))


# ---------------------------------------------------------------------------
# (b) append

def check_append(case, ctx):
    from afmformats.errors import MissingMetaDataError
    import nanite
    cv = case["curve"]
    has_k, has_tip = cv["has_k"], cv["with_tip"]
    expect_ok = has_k or has_tip
    desc = {"spring_constant": has_k, "tip_position": has_tip, "how": case["how"], "source": case["source"]}
    ctx.note_case(case, nontrivial=True, classes=[f"append:k={int(has_k)},tip={int(has_tip)}", f"append:{case['how']}"])
    root = None
    try:
        if case["source"] == "file":
            # the curve comes out of a measurement file, read with afmformats' plain loader
            import afmformats
            root = fresh_dir(ctx, case)
            p = root / "one.h5"
            write_synth_file(p, {"grid": None, "curves": [cv]})
            curve = afmformats.load_data(p, **nanite.read.get_load_data_modality_kwargs())[0]
        else:
            curve = synth.build(to_synth(cv))
            if not has_k:
                curve._metadata.pop("spring constant")
        if ("spring constant" in curve.metadata) != has_k or ("tip position" in curve.columns_innate) != has_tip:
            raise HarnessError("curve construction does not match the case record")
        grp = nanite.IndentationGroup()
        for j in range(case["prefill"]):
            with ctx.no_raise("append-refused-usable-curve", dict(desc, spring_constant=True, tip_position=False)):
                grp.append(synth.build(synth.base_case(n_app=60, n_ret=60, enum=j)))
        n0 = len(grp)
        try:
            if case["how"] == "append":
                grp.append(curve)
            elif case["how"] == "iadd":
                grp += [curve]
            else:
                other = nanite.IndentationGroup()
                other._mmlist.append(curve)      # a populated group handed over with +=
                grp += other
            raised = None
        except MissingMetaDataError as exc:
            raised = exc
        except (KeyboardInterrupt, SystemExit, MemoryError):
            raise
        except BaseException as exc:  # noqa
            ctx.fail("append-wrong-exception", dict(desc, exception=type(exc).__name__),
                     f"{type(exc).__name__}: {str(exc)[:200]}")
            return
        if expect_ok:
            ctx.check(raised is None, "append-refused-usable-curve", desc,
                      f"MissingMetaDataError for a curve with spring constant={has_k}, tip position={has_tip}")
            ctx.check(len(grp) == n0 + 1 and grp[-1] is curve, "append-not-stored", desc, f"len {n0} -> {len(grp)}")
        else:
            ctx.check(raised is not None, "curve-without-spring-constant-and-tip-accepted", desc,
                      "append accepted a curve with neither spring constant nor tip position")
            if raised is not None:
                ctx.check("spring constant" in list(getattr(raised, "meta_keys", [])), "refusal-names-key", desc,
                          f"meta_keys = {getattr(raised, 'meta_keys', None)}")
            ctx.check(len(grp) == n0 and all(m is not curve for m in grp), "refused-curve-stored", desc,
                      f"len {n0} -> {len(grp)}")
    finally:
        if root is not None:
            shutil.rmtree(root, ignore_errors=True)


# ---------------------------------------------------------------------------
# (c) maps

def same(a, b):
    if isinstance(b, float) and b != b:
        return a != a
    if a != a:
        return False
    return a == b or abs(a - b) <= 1e-12 * max(abs(a), abs(b))


def curve_value(idnt, feat, model_state):
    """the value the property assigns to this curve for the feature (nan = lacking)"""
    fp = idnt.fit_properties
    if feat in ("E", "cp"):
        if not fp.get("success", False):
            return float("nan")
        pf = fp["params_fitted"]
        if feat == "E":
            # a model without a parameter "E" has no value for this feature (see ASSUMPTIONS)
            return float(pf["E"].value) if "E" in pf else float("nan")
        return float(pf["contact_point"].value) * 1e9
    if model_state["rated"]:
        return float(model_state["rating"])
    return float("nan")


def check_maps(ctx, qm, curves, feats, desc, stats):
    """curves: list of (idnt, [x, y], model_state)"""
    from nanite.qmap import DataMissingWarning
    nx, ny = stats["shape"]
    for feat in feats:
        d = dict(desc, feature=feat)
        if feat == "E":
            d["curve_fitted_with_model_without_E"] = any(
                i.fit_properties.get("success", False) and "E" not in i.fit_properties["params_fitted"]
                for i, _, _ in curves)
        expect = np.full((ny, nx), np.nan)
        lacking = []
        for idnt, (x, y), ms in curves:
            v = curve_value(idnt, feat, ms)
            expect[y, x] = v
            if v != v:
                lacking.append(idnt)
        qmap = None
        with warnings.catch_warnings(record=True) as wrec:
            warnings.simplefilter("always")
            with ctx.no_raise("get_qmap-raises", d):
                qmap = qm.get_qmap(FEATURES[feat], qmap_only=True)
        if qmap is None:
            continue
        qmap = np.asarray(qmap)
        ctx.check(qmap.shape == (ny, nx) and qmap.dtype.kind == "f", "map-shape", d,
                  f"shape {qmap.shape} dtype {qmap.dtype}, grid (ny, nx) = {(ny, nx)}")
        if qmap.shape != (ny, nx) or qmap.dtype.kind != "f":
            continue
        for idnt, (x, y), ms in curves:
            got, want = float(qmap[y, x]), float(expect[y, x])
            if want == want:
                ctx.check(same(got, want), "pixel-value", d,
                          f"curve enum {idnt.enum} at pixel (x={x}, y={y}): map {got!r}, curve {want!r}"
                          + (f" (cached rating tuple {idnt.get_rating_parameters()['Rating']!r})" if feat == "rating" else ""))
                stats["finite"] += 1
                if want != 0:
                    stats["max_rel"] = max(stats["max_rel"], abs(got - want) / abs(want))
            else:
                ctx.check(got != got, "value-for-curve-without-result", d,
                          f"curve enum {idnt.enum} at pixel (x={x}, y={y}) has no {feat} but map holds {got!r}")
                stats["nan_curve"] += 1
        occupied = np.zeros((ny, nx), dtype=bool)
        for _, (x, y), _ in curves:
            occupied[y, x] = True
        ctx.check(bool(np.all(np.isnan(qmap[~occupied]))), "value-on-empty-pixel", d,
                  f"map {qmap.tolist()} occupied {occupied.tolist()}")
        stats["empty"] += int((~occupied).sum())
        dm = [w for w in wrec if issubclass(w.category, DataMissingWarning)]
        ctx.check(len(dm) == len(lacking), "missing-data-warning-count", d,
                  f"{len(dm)} DataMissingWarning for {len(lacking)} curves without {feat} (of {len(curves)} curves)")
        if len(dm) == len(lacking):
            msgs = [str(w.message) for w in dm]
            for idnt in lacking:
                hit = [m for m in msgs if str(idnt) in m]
                ctx.check(len(hit) >= 1, "missing-data-warning-names-other-curve", d,
                          f"no warning names {idnt}; messages {msgs[:3]}")
        stats["warnings"] += len(dm)


def reset_feature_caches(qmap_cls):
    """afmformats' qmap_feature decorator keeps cached feature values in process-wide dicts keyed by
    id(curve); empty them so that a case never sees values left behind by curve objects of an earlier
    case that lived at the same address (keeps the oracle a pure function of the case record)"""
    for name in dir(qmap_cls):
        if name.startswith("feat_"):
            f = getattr(qmap_cls, name)
            for attr in ("cache_values", "cache_ids"):
                if isinstance(getattr(f, attr, None), dict):
                    getattr(f, attr).clear()


def check_qmap(case, ctx):
    import nanite
    reset_feature_caches(nanite.QMap)
    root = fresh_dir(ctx, case)
    try:
        _check_qmap(case, ctx, root, nanite)
    finally:
        shutil.rmtree(root, ignore_errors=True)


def _check_qmap(case, ctx, root, nanite):
    desc = {"source": case["source"], "api": case["api"]}
    if case["source"] == "synth":
        spec = case["file"]
        path = root / "map.h5"
        metas = write_synth_file(path, spec)
        grid = spec["grid"]
        shape = (grid["nx"], grid["ny"])
        desc["index_mode"] = grid["mode"]
        pix_by_enum = {}
        for e, (cv, md) in enumerate(zip(spec["curves"], metas)):
            md = dict(md, _index_written=grid["mode"] == "index")
            px = pixel_from_meta(md)
            if px != list(cv["px"]):
                raise HarnessError(f"pixel derivation {px} != intended {cv['px']}")
            pix_by_enum[e] = px
        enums = sorted(range(len(spec["curves"])), key=str)
    else:
        path = root / ("map" + pathlib.Path(case["name"]).suffix)
        shutil.copy(data_dir() / case["name"], path)
        enums = recorded_enums(path)
        pix_by_enum = None
        shape = None

    # load through the requested API
    qm = grp = None
    with ctx.no_raise("load-raises", desc):
        if case["api"] == "QMap_path":
            cb = []
            qm = nanite.QMap(path, callback=cb.append)
            grp = qm.group
            check_callbacks(ctx, cb, desc, expect_complete=True)
        else:
            grp = nanite.load_group(path) if case["api"] == "load_group" else nanite.IndentationGroup(path)
            qm = nanite.QMap(grp)
    if qm is None:
        ctx.note_case(case, nontrivial=False, classes=["qmap:load-failed"])
        return
    objs = list(grp)
    ctx.check([o.enum for o in objs] == enums and all(isinstance(o, nanite.Indentation) for o in objs),
              "curve-order", desc, f"enumerations {[o.enum for o in objs]} ({sorted({type(o).__name__ for o in objs})}),"
              f" expected {enums}")
    if [o.enum for o in objs] != enums or not all(isinstance(o, nanite.Indentation) for o in objs):
        ctx.note_case(case, nontrivial=False, classes=["qmap:load-failed"])
        return
    if pix_by_enum is None:
        md0 = objs[0].metadata
        shape = (int(md0["grid shape x"]), int(md0["grid shape y"]))
        pix_by_enum = {}
        for o in objs:
            md = dict(o.metadata.as_dict(), _index_written=False)
            pix_by_enum[o.enum] = pixel_from_meta(md)
        if len({tuple(v) for v in pix_by_enum.values()}) != len(objs):
            raise HarnessError("recorded map with two curves on one pixel")
    if tuple(int(v) for v in qm.shape) != tuple(shape):
        raise HarnessError(f"substrate map shape {qm.shape} != metadata shape {shape}")
    # substrate sanity: afmformats' own pixel coordinates agree with the derived pixels.  (Not via the
    # "data: scan order" map: afmformats caches that feature per id(curve) in a process-wide dict, so a
    # curve object allocated at a recycled address shows the enum of a dead curve.)
    coords = qm.get_coords(which="px")
    for o, cc in zip(objs, coords):
        if [int(cc[0]), int(cc[1])] != list(pix_by_enum[o.enum]):
            raise HarnessError(f"afmformats places enum {o.enum} on {cc.tolist()}, derived pixel {pix_by_enum[o.enum]}")

    # curves in *written* order (enum j is the j-th curve of the record); ops address them modulo n
    by_enum = {o.enum: o for o in objs}
    order = sorted(by_enum)
    state = {e: {"pre": None, "fitted": False, "rated": False, "rating": None, "unknown": False} for e in order}
    curves = [(by_enum[e], pix_by_enum[e], state[e]) for e in order]
    stats = {"shape": shape, "finite": 0, "nan_curve": 0, "empty": 0, "warnings": 0, "max_rel": 0.0}
    classes = set()
    n_fit = 0
    last_vals = {}
    # freshly loaded: nothing fitted, nothing rated - every present curve is reported missing
    check_maps(ctx, qm, curves, ["E", "cp", "rating"], dict(desc, stage="fresh"), stats)
    for op in case["ops"]:
        if op["op"] == "map":
            check_maps(ctx, qm, curves, [op["feat"]], desc, stats)
            classes.add("qmap:mid-history-map")
            continue
        e = order[op["c"] % len(order)]
        idnt, ms = by_enum[e], state[e]
        if op["op"] == "fit":
            pre = list(PRE[op["pre"]])
            kw = {"model_key": MODELS[op["model"]], "preprocessing": pre}
            if WEIGHT_CP[op["wcp"]] is not None:
                kw["weight_cp"] = WEIGHT_CP[op["wcp"]]
            if SEGMENTS[op["seg"]] is not None:
                kw["segment"] = SEGMENTS[op["seg"]]
            if op.get("fail") == "relcp":
                kw.update(range_type="relative cp", range_x=(-1e-13, 1e-13))
            elif op.get("fail") == "abs":
                kw.update(range_type="absolute", range_x=(1.0, 1.0 + 1e-9))
            else:
                # (the settings persist on the curve: an ordinary fit asks for the full range again)
                kw.update(range_type="absolute", range_x=(0, 0))
            # (persisting setting as well: always given)
            kw["gcf_k"] = GCF_K[op.get("gcf", 0)]
            if kw["gcf_k"] != 1.0:
                classes.add("qmap:fit-with-gcf_k")
            if ms["pre"] != pre:
                ms["rated"] = False
            ms["pre"] = pre
            try:
                idnt.fit_model(**kw)
            except (KeyboardInterrupt, SystemExit, MemoryError):
                raise
            except BaseException:  # noqa
                classes.add("qmap:fit_raised")
                ms["fitted"], ms["unknown"] = False, True
                continue
            n_fit += 1
            ok = bool(idnt.fit_properties.get("success", False))
            ms["fitted"], ms["unknown"] = ok, False
            if not ok:
                classes.add("qmap:fit-unsuccessful")
            else:
                pf = idnt.fit_properties["params_fitted"]
                new = (pf["E"].value if "E" in pf else None, pf["contact_point"].value)
                if "E" not in pf:
                    classes.add("qmap:fitted-with-model-without-E")
                if e in last_vals and last_vals[e] != new:
                    classes.add("qmap:refit-changed-values")
                last_vals[e] = new
        elif op["op"] == "pre_bad":
            try:
                idnt.apply_preprocessing(list(op["bad"]))
            except (KeyboardInterrupt, SystemExit, MemoryError):
                raise
            except BaseException:  # noqa - the request is rejected
                classes.add("qmap:preprocessing-rejected")
                ms["fitted"], ms["rated"], ms["unknown"], ms["pre"] = False, False, False, None
            continue
        elif op["op"] == "pre":
            pre = list(PRE[op["pre"]])
            try:
                idnt.apply_preprocessing(pre)
            except (KeyboardInterrupt, SystemExit, MemoryError):
                raise
            except BaseException:  # noqa
                classes.add("qmap:preprocessing_raised")
                ms["fitted"], ms["rated"], ms["unknown"], ms["pre"] = False, False, True, None
                continue
            if ms["pre"] != pre:
                if ms["fitted"]:
                    classes.add("qmap:fit-discarded-by-preprocessing")
                ms["fitted"], ms["rated"] = False, False
            ms["pre"] = pre
        elif op["op"] == "rate":
            if not ms["fitted"] or ms["unknown"]:
                classes.add("qmap:rate-skipped-unfitted")
                continue
            try:
                rt = idnt.rate_quality(regressor=REGRESSORS[op["reg"]])
            except (KeyboardInterrupt, SystemExit, MemoryError):
                raise
            except BaseException:  # noqa
                classes.add("qmap:rate_raised")
                continue
            ms["rated"], ms["rating"] = True, float(rt)
            classes.add("qmap:rated")
    before = stats["finite"]
    check_maps(ctx, qm, curves, ["E", "cp", "rating"], desc, stats)
    final_finite = stats["finite"] - before
    n = len(order)
    ctx.note_case(case, nontrivial=bool(n_fit >= 1 and final_finite >= 1),
                  classes=sorted(classes) + [f"qmap:{case['source']}", f"qmap:api={case['api']}",
                                             f"qmap:shape={shape[0]}x{shape[1]}" if case["source"] == "synth" else "qmap:recorded-shape",
                                             "qmap:all-pixels-occupied" if n == shape[0] * shape[1] else "qmap:missing-pixels",
                                             "qmap:some-curves-unfitted" if any(not s["fitted"] for s in state.values()) else "qmap:all-fitted"]
                  + ([f"qmap:index-mode={desc['index_mode']}"] if "index_mode" in desc else []))
    for k in ("finite", "nan_curve", "empty", "warnings"):
        ctx.extra[f"map_{k}_checked"] = ctx.extra.get(f"map_{k}_checked", 0) + stats[k]
    ctx.extra["max_map_rel_err"] = max(ctx.extra.get("max_map_rel_err", 0.0), stats["max_rel"])


# ---------------------------------------------------------------------------

def fixed_cases():
    """every recorded file once alone, all of them in one nested folder, the CSV with/without override"""
    out = []
    pool = [("rec", n) for n in RECORDED_SINGLE] + [("recmap", n) for n in RECORDED_MAPS + RECORDED_MAPS_MORE]
    for t, n in pool:
        out.append({"kind": "load", "files": [{"t": t, "dir": [], "stem": "r", "name": n}], "target": 0,
                    "override": None, "api": "load_group", "with_callback": True})
    out.append({"kind": "load", "files": [{"t": t, "dir": [["a"], [], ["a", "b"]][i % 3], "stem": "r", "name": n}
                                          for i, (t, n) in enumerate(pool)],
                "target": "dir", "override": {"spring constant": 0.0731}, "api": "load_group", "with_callback": True})
    out.append({"kind": "load", "files": [{"t": "csv", "dir": [], "stem": "w"}], "target": "dir",
                "override": None, "api": "load_group", "with_callback": True})
    out.append({"kind": "load", "files": [{"t": "csv", "dir": [], "stem": "w"}], "target": "dir",
                "override": {"spring constant": 20.0}, "api": "load_group", "with_callback": True})
    return out


def dispatch(case, ctx):
    kind = case["kind"]
    if kind == "load":
        check_load(case, ctx)
    elif kind == "append":
        check_append(case, ctx)
    elif kind == "qmap":
        check_qmap(case, ctx)
    else:
        raise HarnessError(f"unknown case kind {kind}")


def run(ctx):
    ctx.enumerate(fixed_cases(), dispatch, label="recorded-files")
    ctx.hypothesis(st_load_case(), dispatch, ctx.scale(560, 16000), label="load")
    ctx.hypothesis(st_append_case(), dispatch, ctx.scale(240, 4000), label="append")
    ctx.hypothesis(st_qmap_case(), dispatch, ctx.scale(520, 16000), label="qmap")


def replay(case, ctx):
    dispatch(case, ctx)
