"""C09 — quality rating is total, deterministic, in range, and tied to the current fit.

Histories: a curve is driven into a state (fresh / preprocessed / fitted / edited after fit /
unsuccessful / refitted / failed call), then rated several times with changing regressor,
training set, feature selection and LDA flag, interleaved with state changes; every returned
value is compared with an uncached standalone rater, the case table of the statement, a
fresh equal curve and (sampled) a child interpreter with another hash seed.
"""
import copy
import json
import os
import subprocess
import sys

import numpy as np
from hypothesis import strategies as st

from vlib import fitgen, synth
from vlib.runner import REPO, VERIF

PROPERTY = "C09"
SHARDS = {"quick": 8, "thorough": 16}
RULE = ("Hypothesis draws a synthetic curve (approach shorter or longer than the 600-point size criterion), a "
        "state-reaching prefix (preprocess only / fit / fit + setting edit / unsuccessful fit / refit / failed "
        "call) and 2-5 rating requests over regressor in 7 names + 'none'/'NONE', training set in {shipped "
        "'zef18', generated directory, in-memory (X, y)}, feature subsets, lda in {None, True, False}, interleaved "
        "with state changes (refit with other settings, new preprocessing, setting edit). non-trivial = at least "
        "one rating computed on a successful current fit and at least one in a not-fitted state, or a cache key "
        "change between two ratings; distinct = distinct case record")
ASSUMPTIONS = [
    "expected value = an uncached standalone rater built with get_rater(regressor, training_set, names, lda) and "
    "applied to the same curve; regressors have fixed random_state, so equality is exact",
    "range [0, 10] is asserted for the averaging tree regressors Extra Trees, Random Forest, Decision Tree and "
    "AdaBoost (leaf means / medians of training ratings, all in 0..10)",
    "generated training sets have >= 30 rows and >= 3 rating classes so that every regressor and LDA can be trained",
    "without a successful current fit the value must be -1, or 0 when an exclusion criterion can fail (approach "
    "shorter than 600 points); equality with the standalone rater is asserted for fitted states only, because all "
    "not-fitted states share the cache key hash 'none' while the size criterion is evaluated only once a setting "
    "is stored (both outcomes are allowed by the statement)",
    "cross-process determinism is sampled (a few curves per run, PYTHONHASHSEED 1 and 98765)",
]

REGRESSORS = ["AdaBoost", "Decision Tree", "Extra Trees", "Gradient Tree Boosting", "Random Forest",
              "SVR (RBF kernel)", "SVR (linear kernel)"]
BOUNDED = ["AdaBoost", "Decision Tree", "Extra Trees", "Random Forest"]
FEATS = ["feat_con_apr_flatness", "feat_con_apr_size", "feat_con_apr_sum", "feat_con_bln_slope",
         "feat_con_bln_variation", "feat_con_cp_curvature", "feat_con_cp_magnitude", "feat_con_idt_maxima_75perc",
         "feat_con_idt_monotony", "feat_con_idt_spike_area", "feat_con_idt_sum", "feat_con_idt_sum_75perc"]
BIN = ["feat_bin_apr_spikes_count", "feat_bin_cp_position", "feat_bin_size"]
PRE = ["compute_tip_position", "correct_force_offset", "correct_tip_offset"]


@st.composite
def st_rating(draw):
    reg = draw(st.sampled_from(["Decision Tree"] * 6 + REGRESSORS + ["none", "NONE", "None"]))
    ts = draw(st.sampled_from(["zef18", "zef18", "zef18", "dir", "tuple"]))
    names = draw(st.sampled_from([None, None, "subset", "subset_with_binary"]))
    if names == "subset":
        names = draw(st.lists(st.sampled_from(FEATS), min_size=1, max_size=6, unique=True))
    elif names == "subset_with_binary":
        names = draw(st.lists(st.sampled_from(FEATS), min_size=2, max_size=5, unique=True)) + \
            draw(st.lists(st.sampled_from(BIN), min_size=1, max_size=2, unique=True))
    return {"op": "rate", "regressor": reg, "ts": ts, "names": names,
            "lda": draw(st.sampled_from([None, None, None, True, False])), "ts_seed": draw(st.integers(0, 3))}


@st.composite
def st_case(draw):
    long_curve = draw(st.booleans())
    curve = draw(synth.st_curve(st, models=["hertz_para", "sneddon_spher_approx"],
                                n_range=(600, 760) if long_curve else (120, 400), with_tip=False,
                                noise=st.sampled_from([2e-3, 1e-2, 3e-2]), tilt=True, wide=False))
    curve["params"]["baseline"] = 0.0
    prefix = draw(st.sampled_from(["fresh", "preprocessed", "fitted", "fitted", "fitted", "fitted_edited",
                                   "unsuccessful", "unsuccessful_multipass", "unsuccessful_multipass", "refitted",
                                   "failed_fit"]))
    ops = []
    n = draw(st.integers(2, 5))
    for i in range(n):
        ops.append(draw(st_rating()))
        if draw(st.booleans()):
            # follow-up request on the same object that differs from the previous one in exactly ONE cache key
            prev = dict(ops[-1])
            which = draw(st.sampled_from(["lda", "lda", "regressor", "names", "ts"]))
            if which == "lda":
                prev["lda"] = draw(st.sampled_from([v for v in (None, True, False) if v != prev["lda"]]))
                if draw(st.booleans()):
                    # LDA defaults differ between tree and non-tree regressors
                    prev["regressor"] = draw(st.sampled_from(["SVR (RBF kernel)", "SVR (linear kernel)"]))
                    ops[-1] = dict(ops[-1], regressor=prev["regressor"])
            elif which == "regressor":
                prev["regressor"] = draw(st.sampled_from([r for r in REGRESSORS if r != prev["regressor"]]))
            elif which == "names":
                prev["names"] = draw(st.lists(st.sampled_from(FEATS), min_size=2, max_size=6, unique=True))
            else:
                prev["ts"] = draw(st.sampled_from([t for t in ("zef18", "dir", "tuple") if t != prev["ts"]]))
            ops.append(prev)
        if draw(st.integers(0, 2)) == 0:
            ops.append(draw(st.sampled_from([{"op": "refit_other"}, {"op": "edit"}, {"op": "repreprocess"},
                                             {"op": "fit"}, {"op": "same_again"}, {"op": "refit_nudge"}, {"op": "refit_nudge"},
                                             # somebody builds a rater with own regressor keywords in between
                                             {"op": "rater_kwargs", "regressor": draw(st.sampled_from(sorted(REG_KWARGS)))}])))
            if draw(st.booleans()):
                # the request made before the state change, once more with identical arguments: only the curve changed
                last_rate = [o for o in ops if o["op"] == "rate"][-1]
                ops.append(dict(last_rate))
    return {"curve": curve, "prefix": prefix, "ops": ops}


#: regressor keyword arguments for nanite.rate.rater.get_rater(regressor, **reg_kwargs) that differ from the shipped ones
REG_KWARGS = {"Decision Tree": {"max_depth": 2}, "Extra Trees": {"n_estimators": 3, "max_depth": 2},
              "Random Forest": {"n_estimators": 3, "max_depth": 2}, "AdaBoost": {"n_estimators": 3},
              "Gradient Tree Boosting": {"n_estimators": 3, "max_depth": 2}}


def _shipped_kw():
    import copy
    from nanite.rate.regressors import reg_dict
    return {name: copy.deepcopy(v[1]) for name, v in reg_dict.items()}


try:
    SHIPPED_KW = _shipped_kw()
except Exception:  # noqa  (import order: filled on first use)
    SHIPPED_KW = None


def rater_kwargs_op(idnt, op, ctx, desc0):
    """get_rater(name, **own keywords) is a value-returning convenience call: ratings requested afterwards by name
    are those of the shipped regressor, as before the call (compared on fresh copies of the curve: no cache)"""
    import copy
    from nanite.rate import rater
    reg = op["regressor"]
    desc = dict(desc0, regressor=reg)

    def fresh_rating():
        c = copy.deepcopy(idnt)
        c._rating = None
        return c.rate_quality(regressor=reg, training_set="zef18")
    with ctx.no_raise("rate-quality-raises", dict(desc, around="get_rater")) as guard:
        v1 = fresh_rating()
        rater.get_rater(reg, **REG_KWARGS[reg])
        v2 = fresh_rating()
        # reference that does not depend on what earlier cases of this process did: the shipped keywords (copied
        # when this module was imported) passed explicitly
        c = copy.deepcopy(idnt)
        c._rating = None
        ref = rater.get_rater(reg, **copy.deepcopy(SHIPPED_KW[reg])).rate(datasets=c)[0]
    if guard.ok:
        ctx.check(v1 == v2 and v2 == ref, "rating-depends-on-earlier-get_rater-call", desc,
                  f"{reg}: {v1!r} before and {v2!r} after get_rater({reg!r}, **{REG_KWARGS[reg]!r}); with the shipped "
                  f"keywords given explicitly {ref!r}")
    ctx.event("get_rater_with_keywords")


def fit_default(idnt, curve, **kw):
    args = dict(model_key=curve["model"], preprocessing=PRE)
    args.update(kw)
    idnt.fit_model(**args)


def reach(idnt, prefix, curve):
    with fitgen.catch():
        if prefix == "preprocessed":
            idnt.apply_preprocessing(PRE)
        elif prefix in ("fitted", "fitted_edited", "refitted"):
            fit_default(idnt, curve)
            if prefix == "fitted_edited":
                idnt.fit_properties["weight_cp"] = 3e-7
            elif prefix == "refitted":
                idnt.fit_model(weight_cp=0, range_x=[-0.5 * curve["depth"], 0.5 * curve["z0"]])
        elif prefix == "unsuccessful":
            fit_default(idnt, curve, range_x=[1.0, 1.0 + 1e-12])
        elif prefix == "unsuccessful_multipass":
            # first pass of a 'relative cp' fit succeeds, the last one has too few points: success False next to
            # parameters of the earlier pass
            fit_default(idnt, curve, range_type="relative cp", range_x=[-1e-13, 1e-13])
        elif prefix == "failed_fit":
            fit_default(idnt, curve)
            idnt.fit_model(range_type="no_such_type")


def state_op(idnt, op, curve, counter):
    with fitgen.catch():
        if op["op"] == "refit_other":
            counter[0] += 1
            fit_default(idnt, curve, weight_cp=[0, 2e-7, 8e-7][counter[0] % 3])
        elif op["op"] == "refit_nudge":
            # a new fit whose interval differs from the previous one by well below a micrometre (alternately a few
            # nanometres and 7 % of the indentation depth: SI-scale settings are tiny numbers)
            counter[0] += 1
            step = 2e-9 if counter[0] % 2 else 0.07 * curve["depth"]
            fit_default(idnt, curve, weight_cp=0, range_x=[-0.5 * curve["depth"] - counter[0] * step, 0.5 * curve["z0"]])
        elif op["op"] == "edit":
            idnt.fit_properties["gcf_k"] = 0.7 if idnt.fit_properties.get("gcf_k", 1.0) == 1.0 else 1.0
        elif op["op"] == "repreprocess":
            idnt.apply_preprocessing(["compute_tip_position", "correct_tip_offset"])
        elif op["op"] == "fit":
            fit_default(idnt, curve)
        # same_again: nothing


def training_set(op, ctx, names):
    """the object handed to the library for this request"""
    if op["ts"] == "zef18":
        return "zef18"
    rng = np.random.RandomState(1000 + op["ts_seed"])
    n = 40
    if op["ts"] == "dir":
        d = ctx.workdir / f"ts_c09_{op['ts_seed']}"
        if not d.exists():
            d.mkdir(parents=True)
            for f in FEATS + BIN:
                col = rng.uniform(0, 1, n) if f in FEATS else rng.randint(0, 2, n).astype(float)
                np.savetxt(d / f"train_{f}.txt", col, fmt="%.2e")
            np.savetxt(d / "train_response.txt", rng.randint(0, 5, n).astype(float) * 2, fmt="%.2e")
        return str(d)
    from nanite.rate import IndentationRater
    k = len(IndentationRater.get_feature_names(names=names, which_type=["continuous"]))
    X = rng.uniform(0, 1, size=(n, k))
    y = (rng.randint(0, 4, n) * 3).astype(float)
    return (X, y)


def rate(idnt, op, ctx):
    names = None if op["names"] is None else list(op["names"])
    ts = training_set(op, ctx, names)
    return idnt.rate_quality(regressor=op["regressor"], training_set=ts, names=names, lda=op["lda"])


def standalone(idnt, op, ctx):
    """uncached value from the standalone rater (None for the pseudo-regressor)"""
    from nanite.rate import get_rater
    if op["regressor"].lower() == "none":
        return -1
    names = None if op["names"] is None else list(op["names"])
    ts = training_set(op, ctx, names)
    rater = get_rater(regressor=op["regressor"], training_set=ts, names=names, lda=op["lda"])
    return rater.rate(datasets=idnt)[0]


def standalone_samples(idnt, op, ctx):
    """the same through the other entry point of the standalone rater: features computed first, then
    rate(samples=...) (feature vector in the order of the rater's names)"""
    from nanite.rate import get_rater
    from nanite.rate.features import IndentationFeatures as IF
    names = None if op["names"] is None else list(op["names"])
    ts = training_set(op, ctx, names)
    rater = get_rater(regressor=op["regressor"], training_set=ts, names=names, lda=op["lda"])
    feats = [float(IF.compute_features(idnt, which_type="all", names=[n])[0]) for n in rater.names]
    return rater.rate(samples=[feats])[0]


def case_table(idnt, op):
    """what the statement allows for this state: set of allowed exact values or 'prediction'"""
    from nanite.rate import IndentationRater as IR
    if op["regressor"].lower() == "none":
        return {-1}
    names = None if op["names"] is None else list(op["names"])
    fn = IR.get_feature_names(names=names, which_type="all")
    feats = IR.compute_features(idnt, which_type=["binary", "continuous"], names=fn)
    fnames = IR.get_feature_names(which_type=["binary", "continuous"], names=fn)
    binary = [v for n_, v in zip(fnames, feats) if n_.startswith("feat_bin_")]
    cont = [v for n_, v in zip(fnames, feats) if n_.startswith("feat_con_")]
    fitted = bool(idnt.fit_properties.get("success")) and "hash" in idnt.fit_properties
    if any(v == 0 for v in binary):
        return {0}
    if not fitted or any(np.isnan(v) for v in cont):
        return {-1}
    return "prediction"


def check_case(case, ctx):
    curve = case["curve"]
    idnt = synth.build(curve)
    reach(idnt, case["prefix"], curve)
    desc0 = {"prefix": case["prefix"]}
    counter = [0]
    rated_fitted = rated_unfitted = key_change = False
    last_key = None
    last_rate_op = None
    classes = [case["prefix"], "long" if curve["n_app"] >= 600 else "short"]
    for n, op in enumerate(case["ops"]):
        if op["op"] == "rater_kwargs":
            rater_kwargs_op(idnt, op, ctx, desc0)
            continue
        if op["op"] != "rate":
            state_op(idnt, op, curve, counter)
            if op["op"] == "refit_nudge" and last_rate_op is not None:
                # rate this fit (fills the cache), then move the interval by another few nanometres: the next
                # rating request finds a cache entry made for an almost identical fit
                with fitgen.catch():
                    rate(idnt, last_rate_op, ctx)
                state_op(idnt, op, curve, counter)
            continue
        last_rate_op = op
        desc = dict(desc0, regressor=op["regressor"], ts=op["ts"],
                    names="all" if op["names"] is None else "subset", lda=str(op["lda"]))
        fitted = bool(idnt.fit_properties.get("success")) and "hash" in idnt.fit_properties
        snap = fitgen.snapshot(idnt)
        with ctx.no_raise("rate-quality-raises", desc) as guard:
            val = rate(idnt, op, ctx)
        if not guard.ok:
            continue
        after = fitgen.snapshot(idnt)
        snap.pop("rating"), after.pop("rating")
        ctx.check(snap == after, "rating-changes-curve", desc, "rate_quality changed settings, results or columns")
        key = (idnt.fit_properties.get("hash", "none"), op["regressor"], op["ts"], op["ts_seed"] if op["ts"] != "zef18" else 0,
               repr(op["names"]), op["lda"])
        if last_key is not None and key != last_key:
            key_change = True
        last_key = key
        rated_fitted |= fitted
        rated_unfitted |= not fitted
        ctx.event("state_fitted" if fitted else "state_not_fitted")
        ctx.event("regressor_" + op["regressor"])
        # value type and case table
        ctx.check(np.isscalar(val) and np.isreal(val) and not np.isnan(val), "rating-not-a-number", desc, repr(val))
        with ctx.no_raise("standalone-rater-raises", desc) as guard:
            table = case_table(idnt, op)
            want = standalone(idnt, op, ctx)
        if not guard.ok:
            continue
        if not fitted and op["regressor"].lower() != "none":
            # all not-fitted states share the cache key hash "none"; whether the size criterion is evaluated
            # depends on whether any setting is stored yet, which is not part of the key: -1, or 0 when an
            # exclusion criterion can fail, are both what the statement allows here
            allowed = {-1, 0} if (table == {0} or curve["n_app"] < 600) else {-1}
            ctx.check(val in allowed, "case-table", dict(desc, fitted=fitted),
                      f"step {n}: rate_quality returned {val!r} without a successful current fit, allowed {sorted(allowed)}")
            continue
        if table != "prediction":
            ctx.check(val in table, "case-table", dict(desc, fitted=fitted),
                      f"step {n}: rate_quality returned {val!r}, the statement's case table allows {sorted(table)} "
                      f"(fitted={fitted})")
        elif op["regressor"] in BOUNDED:
            ctx.check(0 <= val <= 10, "rating-out-of-range", desc, f"{op['regressor']} returned {val!r}")
        # equals the uncached standalone rater (covers cache validity after any key change)
        ctx.check(val == want, "differs-from-standalone-rater", desc,
                  f"step {n}: rate_quality -> {val!r}, get_rater(...).rate(datasets=curve) -> {want!r} "
                  f"(fit hash {idnt.fit_properties.get('hash')})")
        if op["regressor"].lower() != "none":
            with ctx.no_raise("standalone-rater-raises", dict(desc, entry="samples")) as guard:
                want_s = standalone_samples(idnt, op, ctx)
            if guard.ok:
                ctx.check(want_s == want, "standalone-entry-points-differ", desc,
                          f"step {n}: rate(datasets=curve) -> {want!r}, rate(samples=features of the curve) -> {want_s!r}")
        # the feature selection is a set: listing the same names in another order gives the same rating
        if op["names"] is not None and len(op["names"]) >= 2:
            op2 = dict(op, names=list(reversed(op["names"])))
            op3 = dict(op, names=sorted(op["names"]))
            with ctx.no_raise("rate-quality-raises", dict(desc, reordered=True)) as guard:
                v2, v3 = rate(idnt, op2, ctx), rate(idnt, op3, ctx)
            if guard.ok:
                ctx.check(v2 == val and v3 == val, "rating-depends-on-name-order", desc,
                          f"names {op['names']} -> {val!r}, reversed -> {v2!r}, sorted -> {v3!r}")
        # repeated call
        with ctx.no_raise("rate-quality-raises", dict(desc, repeat=True)) as guard:
            val2 = rate(idnt, op, ctx)
        if guard.ok:
            ctx.check(val2 == val, "repeat-differs", desc, f"{val!r} then {val2!r}")
        # rating parameters reflect the request
        rp = idnt.get_rating_parameters()
        if op["regressor"].lower() != "none":
            ctx.check(rp["Rating"] == val and rp["Regressor"] == op["regressor"] and rp["Hash"] == idnt.fit_properties.get("hash", "none"),
                      "rating-parameters", desc, f"get_rating_parameters() = {dict(rp)!r} after rating {val!r}")
        # fresh equal curve in the same state (stored settings replayed)
        if fitted and n == len(case["ops"]) - 1:
            from checks.c03_history import fresh_replay, stored_settings
            f, exc = fresh_replay(curve, stored_settings(idnt))
            if exc is None:
                with ctx.no_raise("rate-quality-raises", dict(desc, fresh=True)) as guard:
                    valf = rate(f, op, ctx)
                if guard.ok:
                    ctx.check(valf == val, "fresh-curve-differs", desc, f"history curve {val!r}, fresh equal curve {valf!r}")
    ctx.note_case(case, nontrivial=bool((rated_fitted and rated_unfitted) or key_change),
                  classes=classes + (["cache_key_change"] if key_change else []))


CHILD = r"""
import sys, json
sys.path.insert(0, %r); sys.path.insert(0, %r)
import warnings; warnings.simplefilter("ignore")
from vlib import runner, synth; runner.import_tree()
import checks.c09_rating as c
import pathlib, tempfile
case = json.loads(sys.stdin.read())
ctx = runner.Ctx("C09", "quick", 0, 0, 1, tempfile.mkdtemp())
idnt = synth.build(case["curve"]); c.reach(idnt, case["prefix"], case["curve"])
print("RATING", repr(float(c.rate(idnt, case["op"], ctx))), idnt.fit_properties.get("hash"))
"""


def check_cross_process(case, ctx):
    import shutil
    curve = case["curve"]
    idnt = synth.build(curve)
    reach(idnt, case["prefix"], curve)
    ctx.note_case({"cross": case}, nontrivial=True, classes=["cross_process"])
    desc = {"regressor": case["op"]["regressor"]}
    with ctx.no_raise("rate-quality-raises", desc) as guard:
        val = float(rate(idnt, case["op"], ctx))
    if not guard.ok:
        return
    for hs in ("1", "98765"):
        env = dict(os.environ, PYTHONHASHSEED=hs, VERIF_REPO=str(REPO))
        out = subprocess.run([sys.executable, "-c", CHILD % (str(REPO / "src"), str(VERIF))], input=json.dumps(case),
                             capture_output=True, text=True, env=env, timeout=600)
        got = [line.split() for line in out.stdout.splitlines() if line.startswith("RATING")]
        if not got:
            from vlib.runner import HarnessError
            raise HarnessError("child rating process failed: " + out.stderr[-600:])
        ctx.check(float(got[0][1]) == val, "rating-differs-across-processes", dict(desc, hashseed=hs),
                  f"parent {val!r}, child (PYTHONHASHSEED={hs}) {got[0][1]}")
    del shutil


def run(ctx):
    ctx.hypothesis(st_case(), check_case, ctx.scale(160, 4000), label="history")
    cross = st.fixed_dictionaries({
        "curve": synth.st_curve(st, models=["hertz_para"], n_range=(600, 700), with_tip=False,
                                noise=st.sampled_from([1e-2]), wide=False),
        "prefix": st.sampled_from(["fitted", "refitted"]),
        "op": st_rating().filter(lambda o: o["regressor"].lower() != "none")})
    ctx.hypothesis(cross, check_cross_process, max(1, ctx.scale(8, 96)), label="cross-process")


def replay(case, ctx):
    if "op" in case:
        check_cross_process(case, ctx)
    else:
        check_case(case, ctx)
