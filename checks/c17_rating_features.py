"""C17 — rating features are well-defined, bounded and independent of force units.

One case = one curve (synthetic or recorded) brought into a state (fitted / one of the
unfitted states) plus a feature request (subset in arbitrary order, type filter), a
force scale factor and a perturbation of the retract segment.  The oracles are range and
relational oracles that follow from the property statement and the feature definitions in
rate/features.py; only the three counting features (size, contact point inside the range,
relative size of the indentation part) are compared with an independent one-line definition.
"""
import copy

import numpy as np
from hypothesis import strategies as st

from vlib import fitgen, recorded, refmodels, synth

PROPERTY = "C17"
SHARDS = {"quick": 8, "thorough": 16}

BINARY = ["feat_bin_apr_spikes_count", "feat_bin_cp_position", "feat_bin_size"]
FRACTION = ["feat_con_apr_flatness", "feat_con_apr_size"]
#: non-negative by construction whenever the normalising maximum approach force is positive
#: (bln_slope, idt_monotony, idt_sum are non-negative unconditionally: abs() / |max - min|)
MAGNITUDE = ["feat_con_apr_sum", "feat_con_bln_slope", "feat_con_bln_variation", "feat_con_cp_magnitude",
             "feat_con_idt_maxima_75perc", "feat_con_idt_monotony", "feat_con_idt_spike_area",
             "feat_con_idt_sum", "feat_con_idt_sum_75perc"]
SIGNED = ["feat_con_cp_curvature"]
ALL = sorted(BINARY + FRACTION + MAGNITUDE + SIGNED)
#: does not look at the fit at all (number of approach samples; NaN only for a curve without any settings)
FIT_INDEPENDENT = ["feat_bin_size"]
WHICH = ["all", "binary", "continuous", ["continuous"], ["binary", "continuous"], ["continuous", "binary"]]
UNKNOWN = ["feat_con_unknown", "feat_bin_", "feat_con_apr_SUM", "contact_point", "is_fitted", "compute_features",
           "get_feature_names", "rate_apr_bumps"]
EDIT_KEYS = ["weight_cp", "range_x", "gcf_k", "method", "model_key", "range_type", "segment"]
PRE_SETS = [["compute_tip_position"], ["compute_tip_position", "correct_force_offset"],
            fitgen.DEFAULT_PRE, ["correct_force_offset"], []]

RULE = ("Hypothesis draws (a) fitted cases: curve = synthetic (5 models, 60-1500 approach points i.e. short < 600 and "
        "long, noise 0..3e-2, tilt, 0-8 spikes injected into the indentation part, optional force offset making the "
        "maximum approach force zero/negative) or recorded good / bad JPK curve with the default preprocessing; "
        "fit = any shipped model, approach (sometimes retract) segment, x axis tip position (sometimes measured height), "
        "full / absolute / relative-cp range, gcf_k 1 / 0.5 / 2, contact point free, or fixed at a chosen "
        "sample near the start / the end / inside, or fixed outside the data range; request = feature subset in "
        "arbitrary order x which_type in 6 spellings (+ an unknown name); power-of-two and arbitrary force scale "
        "factor; retract perturbation (values / spikes / NaN / constant). (b) unfitted cases: fresh, preprocessed "
        "(5 pipelines), fitted-then-setting-edited (7 keys), fitted-then-preprocessed, unsuccessful fit (range with "
        "too few points). non-trivial = (a) the fit succeeded and >= 1 continuous feature is finite, (b) the state "
        "was reached (no 'success' / success False); distinct = distinct case record")
ASSUMPTIONS = [
    "classification from the definitions: binary = feat_bin_*; fraction-type = feat_con_apr_flatness (pos/(pos+neg)), "
    "feat_con_apr_size (1 - n_baseline/n); magnitude-type (>= 0 when max approach force > 0) = apr_sum, bln_slope, "
    "bln_variation, cp_magnitude, idt_maxima_75perc, idt_monotony, idt_spike_area, idt_sum, idt_sum_75perc "
    "(each is log(1 + non-negative / max force) or a ratio of absolute values); signed = feat_con_cp_curvature",
    "scale-invariant by definition: all 15. Binary/fraction features are counts of comparisons between quantities "
    "that scale together; every magnitude feature and cp_curvature divide a force-like sum by max(approach force) "
    "(idt_sum by |max - min|/2, idt_monotony is a ratio of gradient sums); bln_slope and idt_sum_75perc keep the "
    "x unit (1/m resp. m) but no force unit",
    "power-of-two factors (2^-40..2^60) must give bit-identical features: scaling by 2^j commutes exactly with "
    "+, -, *, /, sqrt, gaussian filtering and LAPACK lstsq in the absence of under/overflow",
    "arbitrary factors: rtol 1e-9 (atol 1e-13: log(1 + v) of a tiny v carries an absolute error of 20 x 1.1e-16), "
    "asserted only when the residuals are noise dominated (synthetic noise >= 1e-3 or recorded curve): for a "
    "noise-free exact fit the residuals are rounding noise and are legitimately rescrambled by a non-dyadic factor",
    "the scaled curve is a deep copy whose force / fit / fit residuals columns are multiplied and whose "
    "baseline and modulus parameters (E, E_S, E_L) and chi_sqr are scaled; it is not refitted",
    "feat_bin_size does not depend on the fit (number of approach samples >= 600); in unfitted states it may be "
    "0, 1 or NaN, all other features must be NaN",
    "counting features are compared with their definitions (docstrings, 1 = good): feat_bin_size = approach has >= "
    "600 samples, feat_bin_cp_position = contact point inside [min x, max x] of the approach, feat_con_apr_size = "
    "fraction of approach samples at or beyond the contact point (x <= cp)",
    "request semantics: names without duplicates, >= 1 name (names=[] and duplicates are not specified); unknown "
    "= any string that is not one of the 15 feature names, also names of other attributes of the class",
    "recorded curves labelled bad may be rejected by preprocessing or fitting (skipped); fits that raise are "
    "skipped (not this property's subject)",
    "retract perturbation changes every float column (force, fit, fit residuals, tip position, height) and the "
    "fit range flags at the samples with segment == 1 only",
]

_ETYPE = ("E", "E_S", "E_L", "baseline")


# --------------------------------------------------------------------------
# strategies

def st_request():
    @st.composite
    def _req(draw):
        names = draw(st.one_of(st.none(), st.lists(st.sampled_from(ALL), min_size=1, max_size=15, unique=True)))
        return {"names": names, "which_type": draw(st.sampled_from(WHICH)),
                "unknown": draw(st.sampled_from([None, None] + UNKNOWN)),
                "unknown_pos": draw(st.integers(0, 15))}
    return _req()


def st_src(draw, allow_bad=True):
    kind = draw(st.sampled_from(["synth"] * 14 + ["good"] * 4 + (["bad"] * 2 if allow_bad else [])))
    if kind == "synth":
        curve = draw(synth.st_curve(st, n_range=(60, 1500), noise=st.sampled_from([0.0, 1e-3, 1e-2, 3e-2]),
                                    tilt=True, wide=False))
        curve["n_ret"] = draw(st.integers(12, 300))
        return {"kind": "synth", "curve": curve}
    pool = recorded.GOOD if kind == "good" else recorded.BAD
    name, enum = draw(st.sampled_from(pool))
    return {"kind": "recorded", "pool": kind, "name": name, "enum": enum}


@st.composite
def st_fitted(draw):
    src = st_src(draw)
    mode = draw(st.sampled_from(["free"] * 4 + ["index_start", "index_end", "index_end", "index_any",
                                               "outside_above", "outside_below"]))
    cp = {"mode": mode, "k": draw(st.integers(0, 6)), "frac": draw(st.floats(0.0, 1.0)),
          "sub": draw(st.sampled_from([0.0, 0.0, 0.3, -0.3, 0.5]))}
    fit = {"model_key": draw(st.sampled_from(refmodels.MODELS)),
           "segment": draw(st.sampled_from([0] * 9 + [1])),
           "weight_cp": draw(st.sampled_from([0, 1e-7, 5e-7, 2e-6])),
           "e_factor": 10 ** draw(st.floats(-0.5, 0.5)), "cp": cp,
           "x_axis": draw(st.sampled_from(["tip position"] * 5 + ["height (measured)"])),
           "gcf_k": draw(st.sampled_from([1.0, 1.0, 1.0, 0.5, 2.0])),
           "range": draw(st.sampled_from([None, None, None, "absolute", "relative cp"])),
           "range_frac": sorted([draw(st.floats(0.0, 1.0)), draw(st.floats(0.0, 1.0))])}
    mod = {"spikes": draw(st.sampled_from([0, 0, 1, 2, 4, 8])), "spike_amp": draw(st.floats(0.02, 1.0)),
           "spike_width": draw(st.integers(1, 4)), "seed": draw(st.integers(0, 2 ** 20)),
           "shift": draw(st.sampled_from(["none"] * 8 + ["max0", "negative"])),
           # the tip position stops falling and creeps up over the last samples of the approach (hard substrate,
           # deflection sensitivity a few percent off): a non-monotonic abscissa
           "creep": draw(st.sampled_from([0, 0, 0, 0, 6, 15, 40]))}
    arb = draw(st.sampled_from([1e9, 1e9, 1e3, 1e12, None]))
    if arb is None:
        arb = 10 ** draw(st.floats(-3.0, 12.0))
    return {"state": "fitted", "src": src, "fit": fit, "mod": mod, "req": draw(st_request()),
            "scale": {"pow2": draw(st.integers(-40, 60)), "arb": arb},
            "retract": {"mode": draw(st.sampled_from(["values", "spikes", "drop", "nan", "const"])),
                        "seed": draw(st.integers(0, 2 ** 20))}}


@st.composite
def st_unfitted(draw):
    state = draw(st.sampled_from(["fresh", "preprocessed", "preprocessed", "edited", "edited", "edited",
                                  "repreprocessed", "details_after_fit", "unsuccessful", "unsuccessful"]))
    src = st_src(draw, allow_bad=False)
    return {"state": state, "src": src,
            "pre": draw(st.sampled_from(PRE_SETS)),
            "fit": {"model_key": draw(st.sampled_from(refmodels.MODELS)), "segment": 0,
                    "weight_cp": draw(st.sampled_from([0, 5e-7])), "e_factor": 1.0,
                    "cp": {"mode": "free", "k": 0, "frac": 0.0, "sub": 0.0}},
            "edit_key": draw(st.sampled_from(EDIT_KEYS)),
            "tiny": {"at": draw(st.floats(0.0, 1.0)), "width": draw(st.sampled_from([0.0, 1e-4, 1e-3, 3e-3])),
                     "outside": draw(st.booleans())},
            "req": draw(st_request())}


# --------------------------------------------------------------------------
# building blocks

def same(a, b):
    """element-wise bit equality that treats NaN == NaN"""
    a, b = np.asarray(a, dtype=float), np.asarray(b, dtype=float)
    return a.shape == b.shape and bool(np.all((a == b) | (np.isnan(a) & np.isnan(b))))


def expected_names(req):
    wt = req["which_type"]
    kinds = set(wt if isinstance(wt, list) else [wt])
    base = ALL if req["names"] is None else req["names"]
    out = []
    for n in base:
        if "all" in kinds or ("binary" in kinds and n.startswith("feat_bin_")) \
                or ("continuous" in kinds and n.startswith("feat_con_")):
            out.append(n)
    return sorted(out)


def build(case):
    """fresh curve of the source record with its default preparation; None if the (bad) curve is rejected"""
    src = case["src"]
    with fitgen.catch() as box:
        idnt = fitgen.build_source(src)
    if box["exc"] is not None:
        if src["kind"] == "recorded":
            return None
        raise box["exc"]
    return idnt


def modify(idnt, mod, src):
    """inject spikes into the indentation part of the approach force and / or shift the force"""
    seg0 = np.where(idnt["segment"] == 0)[0]
    if seg0.size < 8:
        return
    f = idnt["force"].copy()
    rng = np.random.RandomState(mod["seed"])
    ya = f[seg0]
    span = float(np.max(ya) - np.min(ya)) or 1e-9
    if src["kind"] == "synth":      # true indentation part
        a = synth.arrays(src["curve"])
        lo = int(np.sum(a["tip"][:seg0.size] >= src["curve"]["params"]["contact_point"]))
    else:                           # the last quarter of a recorded approach
        lo = int(0.75 * seg0.size)
    lo = min(lo, seg0.size - 1)
    for _ in range(mod["spikes"]):
        i = rng.randint(lo, seg0.size)
        w = mod["spike_width"]
        f[seg0[i:i + w]] += rng.choice([-1.0, 1.0]) * mod["spike_amp"] * span
    if mod["shift"] == "max0":
        f = f - np.max(f[seg0])
    elif mod["shift"] == "negative":
        f = f - np.max(f[seg0]) - 0.5 * span
    if mod["spikes"] or mod["shift"] != "none":
        idnt["force"] = f
    m = int(mod.get("creep") or 0)
    if m and "tip position" in idnt and seg0.size > m + 10:
        x = idnt["tip position"].copy()
        xa = x[seg0]
        depth = float(np.max(xa) - np.min(xa))
        if depth > 0 and xa[0] > xa[-1]:
            # first sample stays the largest: only the tail rises by up to 4 % of the travel
            x[seg0[-m:]] = x[seg0[-m - 1]] + np.linspace(0, 0.04 * depth, m + 1)[1:]
            idnt["tip position"] = x


def do_fit(idnt, fit, range_x=None):
    """fit_model with initial parameters from the library's guess, modulus scaled, contact point per mode"""
    pi = idnt.get_initial_fit_parameters(model_key=fit["model_key"])
    ek = refmodels.EKEY[fit["model_key"]]
    pi[ek].set(value=pi[ek].value * fit["e_factor"])
    cp = fit["cp"]
    xcol = fit.get("x_axis", "tip position")
    x = idnt[xcol][idnt["segment"] == 0]
    if cp["mode"] != "free" and x.size >= 2:
        n = x.size
        step = (x[0] - x[-1]) / (n - 1)
        span = float(np.max(x) - np.min(x))
        if cp["mode"] == "index_start":
            val = x[min(cp["k"], n - 1)] + cp["sub"] * step
        elif cp["mode"] == "index_end":
            val = x[max(n - 1 - cp["k"], 0)] + cp["sub"] * step
        elif cp["mode"] == "index_any":
            val = x[int(cp["frac"] * (n - 1))] + cp["sub"] * step
        elif cp["mode"] == "outside_above":
            val = np.max(x) + (0.001 + cp["frac"]) * span
        else:
            val = np.min(x) - (0.001 + cp["frac"]) * span
        pi["contact_point"].set(value=float(val), vary=False)
    rtype = "absolute"
    if range_x is None and fit.get("range") and x.size >= 2:
        rtype = fit["range"]
        lo, span = float(np.min(x)), float(np.max(x) - np.min(x))
        a, b = fit["range_frac"]
        if rtype == "absolute":
            range_x = [lo + a * span, lo + b * span]
        else:
            range_x = [-(0.05 + a) * span, (0.05 + b) * span]
    kw = dict(model_key=fit["model_key"], params_initial=pi, x_axis=xcol, y_axis="force",
              segment=fit["segment"], weight_cp=fit["weight_cp"], range_type=rtype,
              range_x=list(range_x) if range_x is not None else [0, 0], method="leastsq",
              gcf_k=fit.get("gcf_k", 1.0), optimal_fit_edelta=False)
    idnt.fit_model(**kw)


def cp_class(idnt):
    fp = idnt.fit_properties
    x = idnt[fp["x_axis"]][idnt["segment"] == 0]
    cp = fp["params_fitted"]["contact_point"].value
    if x.size == 0 or not np.isfinite(cp):
        return "undefined"
    if cp > np.max(x):
        return "above_range"
    if cp < np.min(x):
        return "below_range"
    i = int(np.argmin(np.abs(x - cp)))
    if i <= 6:
        return "near_start"
    if i >= x.size - 7:
        return "near_end"
    return "inside"


def scaled_copy(idnt, s):
    i2 = copy.deepcopy(idnt)
    for col in ("force", "fit", "fit residuals"):
        if col in idnt:
            i2[col] = idnt[col] * s
    fp = i2.fit_properties
    for key in ("params_fitted", "params_initial"):
        pars = fp.get(key)
        if pars is None:
            continue
        for name in _ETYPE:
            if name in pars and not pars[name].expr:
                p = pars[name]
                p.set(value=p.value * s, min=p.min * s, max=p.max * s)
    if "chi_sqr" in fp:
        dict.__setitem__(fp, "chi_sqr", fp["chi_sqr"] * s * s)
    return i2


def approach_only_copy(idnt):
    """the same fitted curve without its retract samples (a record that ends at the turning point)"""
    from nanite.indent import Indentation
    app = idnt["segment"] == 0
    raw = ("force", "height (measured)", "height (piezo)", "segment", "time", "tip position")
    data = {col: np.array(idnt[col], copy=True)[app] for col in idnt.columns if col in raw}
    md = dict(idnt.metadata)
    md["point count"] = int(app.sum())
    i3 = Indentation(data=data, metadata=md)
    for col in idnt.columns:
        if col not in raw:
            i3[col] = np.array(idnt[col], copy=True)[app]
    i3.preprocessing = copy.deepcopy(idnt.preprocessing)
    i3.preprocessing_options = copy.deepcopy(idnt.preprocessing_options)
    i3.fit_properties.restore(copy.deepcopy(dict(idnt.fit_properties)))
    return i3


def retract_copy(idnt, spec):
    if spec["mode"] == "drop":
        return approach_only_copy(idnt), int((idnt["segment"] == 1).sum())
    i3 = copy.deepcopy(idnt)
    ret = idnt["segment"] == 1
    n = int(ret.sum())
    rng = np.random.RandomState(spec["seed"])
    for col in ("force", "fit", "fit residuals", "tip position", "height (measured)"):
        if col not in idnt:
            continue
        a = np.array(idnt[col], dtype=float, copy=True)
        fin = a[np.isfinite(a)]
        span = float(np.max(fin) - np.min(fin)) if fin.size else 1.0
        span = span or 1.0
        if spec["mode"] == "values":
            a[ret] = np.nan_to_num(a[ret]) * rng.uniform(-2, 2) + rng.normal(0, span, size=n)
        elif spec["mode"] == "spikes":
            idx = np.where(ret)[0]
            hit = idx[rng.randint(0, n, size=min(n, 5))] if n else idx
            a[hit] = np.nan_to_num(a[hit]) + rng.choice([-1.0, 1.0], size=hit.size) * 1e3 * span
        elif spec["mode"] == "nan":
            a[ret] = np.nan
        else:
            a[ret] = rng.uniform(-5, 5) * span
        i3[col] = a
    if "fit range" in idnt:
        r = np.array(idnt["fit range"], copy=True)
        r[ret] = rng.randint(0, 2, size=n).astype(r.dtype)
        i3["fit range"] = r
    return i3, n


def request(idnt, req, ctx, desc):
    """the requested subset: names/order, unknown names, value consistency with the full vector.
    Returns (full values or None)"""
    from nanite.rate.features import IndentationFeatures as IF
    with ctx.no_raise("compute-raises", dict(desc, request="full")) as guard:
        full, fnames = IF.compute_features(idnt, ret_names=True)
    if not guard.ok:
        return None
    d = {"which_type": str(req["which_type"]), "names": "given" if req["names"] is not None else "none"}
    ctx.check(list(fnames) == ALL, "names-order", {"which_type": "all", "names": "none"},
              f"default request returned names {fnames}")
    ctx.check(isinstance(full, np.ndarray) and full.dtype == np.float64 and full.shape == (len(ALL),),
              "result-type", d, f"full result {type(full).__name__} dtype={getattr(full, 'dtype', None)} "
                                f"shape={getattr(full, 'shape', None)}")
    want = expected_names(req)
    names_arg = None if req["names"] is None else list(req["names"])
    with ctx.no_raise("compute-raises", dict(desc, request="subset")) as guard:
        vals, names = IF.compute_features(idnt, which_type=req["which_type"], names=names_arg, ret_names=True)
        vals_only = IF.compute_features(idnt, which_type=req["which_type"], names=names_arg)
    if guard.ok:
        ctx.check(names_arg is None or names_arg == req["names"], "names-argument-modified", d,
                  "the caller's name list was modified")
        ctx.check(list(names) == want, "names-order", d,
                  f"requested names={req['names']} which_type={req['which_type']!r}: returned {list(names)}, "
                  f"expected sorted {want}")
        ctx.check(isinstance(vals, np.ndarray) and vals.dtype == np.float64 and vals.shape == (len(names),),
                  "result-type", d, f"dtype={getattr(vals, 'dtype', None)} shape={getattr(vals, 'shape', None)}")
        ref = [full[ALL.index(n)] for n in names if n in ALL]
        ctx.check(len(ref) == len(vals) and same(vals, ref), "subset-differs-from-full", d,
                  f"names {list(names)}: subset values {vals!r} != values of the full vector {ref!r}")
        ctx.check(same(vals, vals_only), "ret-names-changes-values", d, f"{vals!r} vs {vals_only!r}")
    if req["unknown"] is not None:
        base = list(req["names"] or [])
        base.insert(min(req["unknown_pos"], len(base)), req["unknown"])
        with fitgen.catch() as box:
            out = IF.compute_features(idnt, which_type=req["which_type"], names=list(base), ret_names=True)
        exc = box["exc"]
        # get_feature_names documents ValueError for unknown names; with which_type="all" and explicit names
        # compute_features deliberately skips that resolution step (F24), there any rejection is accepted
        accept = (ValueError, AttributeError, TypeError) if (req["which_type"] == "all") else (ValueError,)
        ctx.check(isinstance(exc, accept), "unknown-name-not-rejected", dict(d, unknown=req["unknown"]),
                  f"names={base}: " + (f"raised {type(exc).__name__}: {exc}" if exc is not None
                                       else f"returned {out!r}") + ", expected ValueError")
    return full


def idt_gradient_class(idnt):
    """independent look at the input of feat_con_idt_monotony: does the (blurred, sigma 2) approach force beyond
    the fitted contact point rise anywhere?  (the feature divides by the summed positive gradient)"""
    from scipy import ndimage
    fp = idnt.fit_properties
    seg0 = idnt["segment"] == 0
    x, y = idnt[fp["x_axis"]][seg0], idnt["force"][seg0]
    part = np.asarray(y[x < fp["params_fitted"]["contact_point"].value], dtype=float)
    if part.size <= 2:
        return "too_short"
    grad = np.gradient(ndimage.gaussian_filter1d(part, sigma=2))
    return "some_positive" if np.any(grad > 0) else "none_positive"


def value_oracle(full, ymax, ctx, desc, idnt=None):
    for name, v in zip(ALL, full):
        d = dict(desc, feature=name)
        if name == "feat_con_idt_monotony" and idnt is not None and not np.isnan(v) and not np.isfinite(v):
            d["idt_gradient"] = idt_gradient_class(idnt)
        ctx.check(np.isnan(v) or np.isfinite(v), "non-finite", d, f"{name} = {v!r}")
        if np.isnan(v) or not np.isfinite(v):
            continue
        if name in BINARY:
            ctx.check(v in (0.0, 1.0), "binary-range", d, f"{name} = {v!r}")
        elif name in FRACTION:
            ctx.check(0.0 <= v <= 1.0, "fraction-range", d, f"{name} = {v!r}")
        elif name in MAGNITUDE and ymax > 0:
            ctx.check(v >= 0.0, "magnitude-negative", d, f"{name} = {v!r} with max approach force {ymax!r} > 0")


# --------------------------------------------------------------------------
# oracles

def check_fitted(case, ctx):
    src, fit, mod = case["src"], case["fit"], case["mod"]
    kind = src["kind"] if src["kind"] == "synth" else src["pool"]
    classes = [kind, "fit_" + fit["model_key"], "cpmode_" + fit["cp"]["mode"], f"segment{fit['segment']}",
               "shift_" + mod["shift"], "spikes" if mod["spikes"] else "no_spikes",
               "tip_creep" if mod.get("creep") else "tip_monotone",
               "x_" + fit["x_axis"].split()[0], "gcf_1" if fit["gcf_k"] == 1 else "gcf_not_1",
               "range_" + str(fit["range"]).split()[0]]
    idnt = build(case)
    if idnt is None:
        ctx.note_case(case, nontrivial=False, classes=classes + ["preprocessing_rejected"])
        return
    modify(idnt, mod, src)
    with fitgen.catch() as box:
        do_fit(idnt, fit)
    if box["exc"] is not None:
        ctx.note_case(case, nontrivial=False, classes=classes + ["fit_raised_" + type(box["exc"]).__name__])
        return
    if not idnt.fit_properties.get("success"):
        # e.g. recorded bad curves whose approach segment has a single sample: an unfitted state
        ctx.note_case(case, nontrivial=idnt.fit_properties.get("success") is False,
                      classes=classes + ["fit_unsuccessful", "state_unsuccessful_natural"])
        unfitted_oracle(idnt, "unsuccessful", case["req"], ctx, {"state": "unsuccessful", "kind": kind})
        return
    seg0 = idnt["segment"] == 0
    napp = int(seg0.sum())
    ya = idnt["force"][seg0]
    ymax = float(np.max(ya)) if napp else float("nan")
    xa = idnt[idnt.fit_properties["x_axis"]][seg0]
    if napp < 2 or not xa[0] > xa[-1]:
        # datax_apr states its precondition with an assert ("Approach from large distances towards lower")
        ctx.note_case(case, nontrivial=False, classes=classes + ["approach_not_descending_skipped"])
        return
    cpc = cp_class(idnt)
    desc = {"cp": cpc, "shift": mod["shift"], "segment": fit["segment"], "kind": kind,
            # measured, not taken from the generator: a baseline equal to minus the peak also gives a zero maximum
            "max_force": "zero" if ymax == 0 else ("negative" if ymax < 0 else "positive")}
    before = fitgen.snapshot(idnt)
    full = request(idnt, case["req"], ctx, desc)
    classes += ["cp_" + cpc, "short" if napp < 600 else "long",
                "maxforce_positive" if ymax > 0 else "maxforce_nonpositive"]
    if full is None:
        ctx.note_case(case, nontrivial=True, classes=classes + ["known_finding_excluded"])
        return
    ncon = int(np.sum(np.isfinite(full[len(BINARY):])))
    ctx.note_case(case, nontrivial=ncon >= 1, classes=classes + [f"finite_continuous_{min(ncon // 4 * 4, 12)}+"])
    for name, v in zip(ALL, full):
        if np.isnan(v):
            ctx.event("nan_" + name)
    ctx.check(fitgen.snapshot(idnt) == before, "curve-modified", desc,
              "settings, results, columns or rating of the curve changed while computing features")
    value_oracle(full, ymax, ctx, desc, idnt)
    # the three counting features against their one-line definitions
    cp = idnt.fit_properties["params_fitted"]["contact_point"].value
    want = {"feat_bin_size": float(napp >= 600),
            "feat_bin_cp_position": float(np.min(xa) <= cp <= np.max(xa)),
            "feat_con_apr_size": float(np.sum(xa <= cp)) / napp}
    for name, w in want.items():
        v = full[ALL.index(name)]
        ctx.check(abs(v - w) <= 1e-12, "count-feature-definition", dict(desc, feature=name),
                  f"{name} = {v!r}, definition gives {w!r} (approach samples {napp}, contact point {cp!r}, "
                  f"x range [{np.min(xa)!r}, {np.max(xa)!r}])")

    from nanite.rate.features import IndentationFeatures as IF
    # (4) common positive factor on force, fit, residuals
    s2 = 2.0 ** case["scale"]["pow2"]
    with ctx.no_raise("compute-raises", dict(desc, request="scaled")) as guard:
        f2 = IF.compute_features(scaled_copy(idnt, s2))
    if guard.ok:
        bad = [n for n, a, b in zip(ALL, full, f2) if not same([a], [b])]
        for n in bad:
            i = ALL.index(n)
            ctx.fail("scale-pow2-not-identical", dict(desc, feature=n),
                     f"{n}: {full[i]!r} -> {f2[i]!r} after multiplying force, fit, residuals by 2**{case['scale']['pow2']}")
    noisy = src["kind"] == "recorded" or src["curve"]["noise"] >= 1e-3
    if noisy:
        sa = float(case["scale"]["arb"])
        with ctx.no_raise("compute-raises", dict(desc, request="scaled")) as guard:
            f3 = IF.compute_features(scaled_copy(idnt, sa))
        if guard.ok:
            ctx.event("arbitrary_scale_asserted")
            for n, a, b in zip(ALL, full, f3):
                ok = same([a], [b]) or (np.isfinite(a) and np.isfinite(b) and abs(a - b) <= 1e-9 * abs(a) + 1e-13)
                if ok and np.isfinite(a) and abs(a) > 1e-6:
                    ctx.extra["max_rel_change_arbitrary_scale"] = max(
                        ctx.extra.get("max_rel_change_arbitrary_scale", 0.0), float(abs(a - b) / abs(a)))
                ctx.check(ok, "scale-arbitrary-changes-feature", dict(desc, feature=n),
                          f"{n}: {a!r} -> {b!r} after multiplying force, fit, residuals by {sa!r}")
    # (5) retract samples are irrelevant
    i3, nret = retract_copy(idnt, case["retract"])
    if nret:
        with ctx.no_raise("compute-raises", dict(desc, request="retract_" + case["retract"]["mode"])) as guard:
            f4 = IF.compute_features(i3)
        if guard.ok:
            ctx.event("retract_perturbed")
            for n, a, b in zip(ALL, full, f4):
                ctx.check(same([a], [b]), "depends-on-retract", dict(desc, feature=n, mode=case["retract"]["mode"]),
                          f"{n}: {a!r} -> {b!r} after changing only retract samples ({case['retract']['mode']})")
    # (6) a kept feature object follows the curve (every third case: it refits the curve)
    if case["scale"]["pow2"] % 3 == 0 and fit["segment"] == 0:
        kept_instance(idnt, ctx, desc)


def kept_instance(idnt, ctx, desc):
    """a feature object that is kept while the curve is refitted: its feat_* methods read the curve's current
    approach data, fit and contact point (features depend only on those, not on an earlier state)"""
    from nanite.rate.features import IndentationFeatures as IF
    inst = IF(idnt)
    with fitgen.catch() as box:
        first = [float(getattr(inst, n)()) for n in ALL]
        # refit with another weighting and a contact point moved by construction (fixed elsewhere)
        pi = idnt.get_initial_fit_parameters()
        x = idnt[idnt.fit_properties["x_axis"]][idnt["segment"] == 0]
        pi["contact_point"].set(value=float(x[len(x) // 3]), vary=False)
        idnt.fit_model(params_initial=pi, weight_cp=0)
        again = [float(getattr(inst, n)()) for n in ALL]
        fresh = IF.compute_features(idnt)
    if box["exc"] is not None or not idnt.fit_properties.get("success"):
        ctx.event("kept_instance_skipped")
        return
    ctx.event("kept_instance_compared")
    for n, a, b in zip(ALL, again, fresh):
        ctx.check(same([a], [b]), "kept-instance-stale", dict(desc, feature=n),
                  f"{n}: a kept IndentationFeatures object returns {a!r} after the curve was refitted, "
                  f"compute_features on the curve gives {b!r}")
    del first


def check_unfitted(case, ctx):
    state, src = case["state"], case["src"]
    kind = src["kind"] if src["kind"] == "synth" else src["pool"]
    classes = ["state_" + state, kind]
    desc = {"state": state, "kind": kind}
    with fitgen.catch() as box:
        idnt = fitgen.build_source(src, preprocess=False)
        if state == "fresh":
            pass
        elif state == "preprocessed":
            idnt.apply_preprocessing(list(case["pre"]))
            classes.append(f"pipeline{PRE_SETS.index(case['pre'])}")
        else:
            idnt.apply_preprocessing(list(fitgen.DEFAULT_PRE if src["kind"] == "recorded" else
                                          ["compute_tip_position"]))
            if state == "unsuccessful":
                x = idnt["tip position"][idnt["segment"] == 0]
                lo, hi = float(np.min(x)), float(np.max(x))
                a = lo + case["tiny"]["at"] * (hi - lo)
                if case["tiny"]["outside"]:
                    a = hi + (0.01 + case["tiny"]["at"]) * (hi - lo)
                do_fit(idnt, case["fit"], range_x=[a, a + max(case["tiny"]["width"] * (hi - lo), 1e-15)])
            else:
                do_fit(idnt, case["fit"])
                if state == "edited":
                    key = case["edit_key"]
                    fp = idnt.fit_properties
                    new = {"weight_cp": (fp["weight_cp"] or 0) + 1e-7, "range_x": [-1e-6, 1e-6], "gcf_k": 0.5,
                           "method": "nelder", "range_type": "relative cp", "segment": 1,
                           "model_key": "hertz_cone" if fp["model_key"] != "hertz_cone" else "hertz_para"}[key]
                    fp[key] = new
                    classes.append("edit_" + key)
                    desc["edit"] = key
                elif state == "details_after_fit":
                    # the same pipeline again after the fit, this time asking for the details of the steps
                    idnt.apply_preprocessing(copy.deepcopy(idnt.preprocessing), copy.deepcopy(idnt.preprocessing_options),
                                             ret_details=True)
                else:  # repreprocessed: a different pipeline after the fit drops the results
                    idnt.apply_preprocessing(list(idnt.preprocessing) + ["correct_force_offset"]
                                             if "correct_force_offset" not in idnt.preprocessing
                                             else ["compute_tip_position"])
    if box["exc"] is not None:
        ctx.note_case(case, nontrivial=False, classes=classes + ["setup_raised_" + type(box["exc"]).__name__])
        return
    fp = idnt.fit_properties
    if state == "unsuccessful":
        reached = fp.get("success") is False
    else:
        reached = "success" not in fp
    if state == "details_after_fit" and not reached:
        # whether the fit survives the request is not this property's business; that the features can be computed is
        ctx.note_case(case, nontrivial=True, classes=classes + ["fit_kept"])
        from nanite.rate.features import IndentationFeatures as IF
        with ctx.no_raise("compute-raises", desc):
            IF.compute_features(idnt)
        return
    ctx.note_case(case, nontrivial=reached, classes=classes + (["reached"] if reached else ["state_not_reached"]))
    if not reached:
        return
    unfitted_oracle(idnt, state, case["req"], ctx, desc)


def unfitted_oracle(idnt, state, req, ctx, desc):
    """(6) no successful fit: no exception, every fit-dependent feature NaN"""
    from nanite.rate.features import IndentationFeatures as IF
    before = fitgen.snapshot(idnt)
    with ctx.no_raise("unfitted-raises", desc) as guard:
        full = IF.compute_features(idnt)
    if not guard.ok:
        return
    for name, v in zip(ALL, full):
        d = dict(desc, feature=name)
        if name in FIT_INDEPENDENT:
            ctx.check(np.isnan(v) or v in (0.0, 1.0), "binary-range", d, f"{name} = {v!r}")
            if state == "fresh":
                ctx.check(np.isnan(v), "unfitted-not-nan", d, f"{name} = {v!r} for a curve without any settings")
        else:
            ctx.check(np.isnan(v), "unfitted-not-nan", d, f"{name} = {v!r} without a successful fit ({state})")
    request(idnt, req, ctx, desc)
    ctx.check(fitgen.snapshot(idnt) == before, "curve-modified", desc,
              "settings, results, columns or rating of the curve changed while computing features")


def check_case(case, ctx):
    if case["state"] == "fitted":
        check_fitted(case, ctx)
    else:
        check_unfitted(case, ctx)


def run(ctx):
    ctx.hypothesis(st_unfitted(), check_case, ctx.scale(480, 19200), label="unfitted")
    ctx.hypothesis(st_fitted(), check_case, ctx.scale(1920, 76800), label="fitted")


def replay(case, ctx):
    check_case(case, ctx)
