"""C13 — every registered model obeys the structural model contract.

Metamorphic relations on NaniteFitModel.model / .residual for all shipped models and
harness-defined user models (order sensitive; expression + ancillaries).
"""
import numpy as np
from hypothesis import strategies as st

from vlib import hmodels

PROPERTY = "C13"
SHARDS = {"quick": 8, "thorough": 16}
RULE = ("Hypothesis draws (registered model incl. two harness-defined user models, parameters inside "
        "bounds, strictly monotonic abscissa of 2-60 points straddling the contact point, orientation "
        "ascending/descending, shift, baseline increment, modulus factor, weighting distance). "
        "non-trivial = >= 2 points in contact and >= 1 out of contact; distinct = distinct case record")
ASSUMPTIONS = [
    "translation covariance / linearity tolerances: 1e-9 relative for depths >= 1e-3 of the depth scale "
    "(abscissa shift bounded by 10x the scale so float64 cancellation stays below the tolerance)",
    "monotonicity and continuity are asserted for the shipped models and the harness models, which are "
    "constructed to satisfy them when the wrapper hands them approach-ordered data",
    "moduli = parameters with unit 'Pa' that are not expression-constrained",
    "the externally installed model 'sneddon_spher' (package nanite_model_sneddon_spher, not in /repo) is excluded",
]
EPS = np.finfo(float).eps


def value_strategy(name, par):
    logu = lambda lo, hi: st.floats(lo, hi).map(lambda e: 10.0 ** e)  # noqa: E731
    if name.startswith("E_L"):
        return logu(0.0, 2.99)
    if name.startswith("E"):
        return logu(1.0, 6.0)
    if name.startswith("nu"):
        return st.floats(0.0, 0.5)
    if name == "R":
        return st.floats(1e-6, 30e-6)
    if name == "alpha":
        hi = min(par.max, 80.0)
        return st.floats(1.0, hi * 0.98)
    if name == "t":
        return logu(-8.0, -6.0)
    if name.startswith("_"):
        # "hidden" helper parameters of user models (developer docs): ordinary arguments of the model function
        return st.floats(0.5, 2.0)
    return st.just(par.value)


@st.composite
def st_case(draw, keys):
    from nanite import model as nmodel
    key = draw(st.sampled_from(keys))
    md = nmodel.models_available[key]
    defaults = md.get_parameter_defaults()
    p = {}
    for name, par in defaults.items():
        if par.expr or name in ("contact_point", "baseline"):
            continue
        p[name] = draw(value_strategy(name, par))
    scale = draw(st.floats(0.2e-6, 3e-6))
    if "R" in p:
        scale = min(scale, 0.9 * p["R"])
    cp = draw(st.sampled_from([0.0, 1.0, -1.0])) * draw(st.floats(0, 3e-6))
    n = draw(st.integers(2, 60))
    # strictly monotonic offsets from +a*scale (out of contact) down to -scale (full depth)
    top = draw(st.floats(0.05, 3.0))
    # sometimes the whole abscissa lies on the non-contact side (a baseline stretch only)
    all_out = draw(st.integers(0, 7)) == 0
    u = sorted(set(draw(st.lists(st.floats(0.0, 1.0), min_size=n, max_size=n))) | {0.0, 1.0})
    # sometimes a long, evenly sampled record (high-rate acquisition) around power-of-two lengths
    n_long = draw(st.sampled_from([0] * 12 + [4097, 16384, 16385, 32769, 50000]))
    efac = draw(st.floats(0.01, 100.0))
    units = dict(zip(md.parameter_keys, md.parameter_units))
    for name, v in p.items():
        if units.get(name) == "Pa" and np.isfinite(defaults[name].max):
            # scaled moduli must stay inside their bounds (lmfit clips values to the bounds)
            efac = min(efac, 0.99 * defaults[name].max / v)
    return {"model": key, "params": p, "cp": cp, "scale": scale, "top": top, "u": u if not n_long else [0.0, 1.0],
            "n_long": n_long, "all_out": all_out,
            "ascending": draw(st.booleans()),
            "shift": draw(st.sampled_from([0.0, 1.0, -1.0])) * draw(st.floats(0, 10.0)),
            "dbase": draw(st.sampled_from([1.0, -1.0])) * draw(st.floats(1e-12, 1e-6)),
            "efac": efac,
            "weight_cp": draw(st.sampled_from([0, False, 1e-8, 1e-7, 5e-7, 2e-6])),
            "baseline": draw(st.sampled_from([0.0, 1.0, -1.0])) * draw(st.floats(0, 1e-8)),
            "noise_seed": draw(st.integers(0, 10000))}


def make_params(md, case, cp=None, baseline=None, efac=1.0):
    params = md.get_parameter_defaults()
    units = dict(zip(md.parameter_keys, md.parameter_units))
    for name, v in case["params"].items():
        if units.get(name) == "Pa":
            v = v * efac
        params[name].set(value=v)
    params["contact_point"].set(value=case["cp"] if cp is None else cp)
    params["baseline"].set(value=case["baseline"] if baseline is None else baseline)
    return params


def pstate(params):
    return {k: (p.value, p.min, p.max, p.vary, p.expr) for k, p in params.items()}


def check_case(case, ctx):
    from nanite import model as nmodel
    from nanite.model import residuals as nres
    md = nmodel.models_available[case["model"]]
    desc = {"model": case["model"]}
    cp, scale = case["cp"], case["scale"]
    u = np.array(case["u"]) if not case.get("n_long") else np.linspace(0.0, 1.0, int(case["n_long"]))
    # descending abscissa = approach order: from cp + top*scale down to cp - scale
    x_desc = cp + case["top"] * scale - u * (case["top"] + 1.0) * scale
    if case.get("all_out"):
        x_desc = cp + case["top"] * scale * (1.0 + 1e-3 - 0.999 * u)      # ends just above the contact point
    keep = np.concatenate([[True], np.diff(x_desc) < 0])
    x_desc = x_desc[keep]
    if x_desc.size < 2:
        return
    depth = cp - x_desc
    incontact = depth > 0
    ctx.note_case(case, nontrivial=bool((incontact.sum() >= 2 and (~incontact).sum() >= 1) or case.get("all_out")),
                  classes=[case["model"], "ascending" if case["ascending"] else "descending"]
                  + (["all_out_of_contact"] if case.get("all_out") else [])
                  + (["long_record"] if case.get("n_long") else []))
    x = x_desc[::-1].copy() if case["ascending"] else x_desc.copy()
    params = make_params(md, case)
    before_p, before_x = pstate(params), x.copy()
    n_seen = len(hmodels.SEEN_ORIENTATION)
    with ctx.no_raise("model-raises", desc):
        f = md.model(params, x)
    # shape / inputs untouched
    ctx.check(isinstance(f, np.ndarray) and f.shape == x.shape, "shape", desc, f"{getattr(f, 'shape', None)} vs {x.shape}")
    ctx.check(np.array_equal(before_x, x) and pstate(params) == before_p, "inputs-modified", desc,
              "model() changed its abscissa or parameters")
    # the wrapped model is the module's function of the approach-ordered abscissa (in one piece), re-oriented
    # (nanite attaches its default wrapper to the module as `model`: own wrappers carry another function name)
    if isinstance(f, np.ndarray) and f.shape == x.shape and \
            getattr(getattr(md.module, "model", None), "__name__", "") == "default_modeling_wrapper":
        vals = make_params(md, case).valuesdict()
        direct = md.module.model_func(x_desc.copy(), **vals)
        direct = direct[::-1] if case["ascending"] else direct
        ctx.check(np.array_equal(direct, f), "model-differs-from-model_func", desc,
                  f"model(params, x) != model_func(approach-ordered x, **values) re-oriented; max diff "
                  f"{np.max(np.abs(direct - f)):.3e}")
    # orientation: result for the reversed array is the reversed result
    f_rev = md.model(make_params(md, case), x[::-1].copy())
    ctx.check(np.array_equal(f_rev[::-1], f), "orientation", desc,
              f"model(x[::-1])[::-1] != model(x); max diff {np.max(np.abs(f_rev[::-1] - f)):.3e}")
    if case["model"] == "verif_order":
        seen = hmodels.SEEN_ORIENTATION[n_seen:]
        ctx.check(all(seen), "user-function-sees-non-approach-order", desc,
                  f"model_func received ascending data ({seen})")
        del hmodels.SEEN_ORIENTATION[:]
    fd = f if not case["ascending"] else f[::-1]     # force in approach order, aligned with depth
    frange = float(np.max(np.abs(fd - case["baseline"]))) or 1e-30
    # off contact = baseline
    ctx.check(np.all(fd[~incontact] == case["baseline"]), "off-contact", desc, "force != baseline off contact")
    # monotonic non-decreasing with depth
    dfd = np.diff(fd)
    # (to rounding: the layered model is a sum of terms, neighbouring depths 1 ulp apart differ by ~100 eps)
    ctx.check(np.all(dfd >= -1024 * EPS * (np.abs(fd[1:]) + abs(case["baseline"]))), "monotonic", desc,
              f"force decreases with depth by {dfd.min():.3e} (range {frange:.3e})")
    # continuity at contact
    if incontact.any():
        D = float(depth.max())
        eps_pts = cp - D * 2.0 ** -np.array([0, 10, 20, 30, 40.0])
        fc = md.model(make_params(md, case), eps_pts) - case["baseline"]
        ctx.check(np.all(np.diff(fc) <= 32 * EPS * (np.abs(fc[:-1]) + abs(case["baseline"]))) and
                  fc[-1] <= 1e-9 * max(fc[0], 1e-300) + 4 * EPS * abs(case["baseline"]),
                  "continuity-at-contact", desc, f"F(cp-D*2^-k)-baseline = {fc.tolist()}")
    # translation covariance
    s = case["shift"] * scale
    far = np.abs(depth) >= 1e-3 * scale
    if s and far.any():
        fs = md.model(make_params(md, case, cp=cp + s), x + s)
        fsd = fs if not case["ascending"] else fs[::-1]
        err = np.abs(fsd - fd)[far]
        ctx.check(np.all(err <= 1e-9 * (np.abs(fd[far] - case["baseline"])) + 8 * EPS * abs(case["baseline"])),
                  "translation", desc, f"shift {s:.3e}: max err {err.max():.3e} of range {frange:.3e}")
    # the same array object re-used after an in-place shift (callers keep and update their abscissa buffers):
    # must equal the evaluation of a fresh array with the same values
    if s:
        buf = x.copy()
        md.model(make_params(md, case), buf)
        buf += s
        f_buf = md.model(make_params(md, case, cp=cp + s), buf)
        f_new = md.model(make_params(md, case, cp=cp + s), buf.copy())
        ctx.check(np.array_equal(f_buf, f_new), "array-reuse-differs", desc,
                  f"model(params, buf) after an in-place shift of buf differs from model(params, buf.copy()); "
                  f"max diff {np.max(np.abs(f_buf - f_new)):.3e} of range {frange:.3e}")
    # baseline additivity
    fb = md.model(make_params(md, case, baseline=case["baseline"] + case["dbase"]), x)
    err = np.abs(fb - (f + case["dbase"]))
    ctx.check(np.all(err <= 4 * EPS * (np.abs(f) + abs(case["dbase"]) + abs(case["baseline"]))), "baseline-additive", desc,
              f"max err {err.max():.3e}")
    # linear in the moduli
    fe = md.model(make_params(md, case, efac=case["efac"]), x)
    lhs = fe - case["baseline"]
    rhs = (f - case["baseline"]) * case["efac"]
    # (absolute floor: forces next to the contact point are subnormal numbers, 1e-12 of them underflows to 0)
    tol = 1e-12 * np.abs(rhs) + 8 * EPS * abs(case["baseline"]) * (1 + case["efac"]) + 1e-290
    ctx.check(np.all(np.abs(lhs - rhs) <= tol), "moduli-linear", desc,
              f"factor {case['efac']}: max rel err {np.max(np.abs(lhs - rhs) / (np.abs(rhs) + 1e-300)):.3e}")
    # default residuals
    rng = np.random.RandomState(case["noise_seed"])
    force = f + rng.normal(0, 0.05 * frange, size=f.size)
    force_in, x_in = force.copy(), x.copy()
    wcp = case["weight_cp"]
    with ctx.no_raise("residual-raises", desc):
        res = md.residual(make_params(md, case), x_in, force_in, wcp)
    ctx.check(np.array_equal(force_in, force) and np.array_equal(x_in, x), "inputs-modified", desc,
              "residual() changed its input arrays")
    if wcp:
        w = np.minimum(np.abs(x - cp) / wcp, 1.0)
    else:
        w = np.ones_like(x)
    want = (force - f) * w
    ctx.check(np.all(np.abs(res - want) <= 4 * EPS * np.abs(want) + 1e-300), "residual-definition", desc,
              f"residual != (force-model)*weights; max err {np.max(np.abs(res - want)):.3e}")
    # the stand-alone weight function: 0 at cp, linear, 1 beyond the distance
    if wcp:
        wlib = nres.compute_contact_point_weights(cp=cp, delta=x.copy(), weight_dist=wcp)
        ctx.check(np.all(np.abs(wlib - w) <= 4 * EPS) and wlib.min() >= 0 and wlib.max() <= 1, "weights", desc,
                  "compute_contact_point_weights != min(|x-cp|/d, 1)")


def check_reregistration(case, ctx):
    """a key is registered, evaluated, deregistered and registered again with ANOTHER user function: model and
    residual must be those of the module registered last"""
    import types
    import lmfit
    from nanite import model as nmodel
    ctx.note_case(case, nontrivial=True, classes=["reregistration"])

    def make(power):
        m = types.ModuleType("verif_rereg_%s" % power)

        def get_parameter_defaults():
            p = lmfit.Parameters()
            p.add("E", value=3e3, min=0)
            p.add("contact_point", value=0)
            p.add("baseline", value=0)
            return p

        def model_func(delta, E, contact_point=0, baseline=0):
            d = contact_point - delta
            return E * np.where(d > 0, d, 0.0) ** power + baseline

        m.get_parameter_defaults, m.model_func = get_parameter_defaults, model_func
        m.model_doc, m.model_key, m.model_name = "rereg", "verif_rereg", "verif rereg %s" % power
        m.parameter_keys = ["E", "contact_point", "baseline"]
        m.parameter_names = ["Young's Modulus", "Contact Point", "Force Baseline"]
        m.parameter_units = ["Pa", "m", "N"]
        m.valid_axes_x, m.valid_axes_y = ["tip position"], ["force"]
        return m

    x = np.linspace(1e-6, -1e-6, 31) if not case["ascending"] else np.linspace(-1e-6, 1e-6, 31)
    force = np.full(31, 1e-9)
    desc = {"model": "verif_rereg"}
    try:
        for power in case["powers"]:
            m = make(power)
            md = nmodel.register_model(m)
            p = m.get_parameter_defaults()
            want = m.model_func(x, **p.valuesdict())
            ctx.check(np.array_equal(md.model(p, x), want), "model-of-earlier-registration", desc,
                      f"after registering exponent {power} under the key, model() does not evaluate that function")
            ctx.check(np.array_equal(md.residual(p, x, force, 0), force - want), "model-of-earlier-registration", desc,
                      f"after registering exponent {power} under the key, residual() does not use that function")
            if case["deregister"]:
                nmodel.deregister_model(md)
    finally:
        nmodel.models_available.pop("verif_rereg", None)


def run(ctx):
    from nanite import model as nmodel
    for i, powers in enumerate([[1.5, 2.0], [2.0, 1.0, 1.5]]):
        for dereg in (True, False):
            if (i * 2 + dereg) % ctx.nshards == ctx.shard % 4:
                ctx.direct(check_reregistration, {"powers": powers, "deregister": dereg, "ascending": bool(i)},
                           label="reregistration")
    mods = hmodels.register_all()
    try:
        # 'sneddon_spher' comes from the third-party package nanite_model_sneddon_spher
        # (iterative compiled solver, not part of /repo): out of scope
        keys = sorted(k for k in nmodel.models_available if k != "sneddon_spher")
        ctx.extra["models"] = keys
        ctx.hypothesis(st_case(keys), check_case, ctx.scale(8000, 400000), label="contract")
    finally:
        hmodels.deregister_all(mods)


def replay(case, ctx):
    if "powers" in case:
        return check_reregistration(case, ctx)
    mods = hmodels.register_all()
    try:
        check_case(case, ctx)
    finally:
        hmodels.deregister_all(mods)
