"""C06 — preprocessing is a pure, repeatable function of raw data, steps and options.

Histories (lists of op records, shrunk as one value) of valid and invalid preprocessing
requests, fits and requests issued through fit_model; after every request the columns are
compared bit for bit with the same request applied to a fresh copy of the curve.
"""
import copy

import numpy as np
from hypothesis import strategies as st

from vlib import fitgen, recorded, synth

PROPERTY = "C06"
SHARDS = {"quick": 8, "thorough": 16}
RULE = ("Hypothesis draws a curve (synthetic in memory, synthetic file-backed via IndentationGroup, recorded JPK) "
        "and a history of 2-7 operations over {apply_preprocessing(valid request), apply_preprocessing(invalid "
        "request: unknown step / missing prerequisite / invalid option value / unknown option name), repeat of "
        "the previous request, fit_model(...), fit_model(preprocessing=..., preprocessing_options=...), "
        "fit_model(preprocessing_options=...) alone}. Valid requests are drawn from all valid orders of step "
        "subsets x option values (6 contact-point methods, 3 regions x 2 strategies). non-trivial = the history "
        "holds >= 2 different requests of which one edits a column, or a rejected request followed by another "
        "operation; distinct = distinct case record")
ASSUMPTIONS = [
    "bit-identity is asserted for every column (bytes and dtype) against a fresh curve built from the same raw "
    "arrays; deterministic optimisers inside the contact-point estimators make this exact",
    "the raw data are observed through afmformats' AFMData._raw_data (in-memory) and by re-reading the file "
    "(file-backed)",
    "after a rejected request nothing is asserted about the columns themselves (the statement does not fix "
    "them), only that the request is not remembered and the next request behaves like on a fresh curve",
]

STEPS = ["compute_tip_position", "correct_force_offset", "correct_tip_offset", "correct_force_slope",
         "correct_split_approach_retract", "smooth_height"]
POC = ["deviation_from_baseline", "fit_constant_line", "fit_constant_polynomial", "fit_line_polynomial",
       "frechet_direct_path", "gradient_zero_crossing"]
REQ = {"correct_tip_offset": ["compute_tip_position"], "correct_force_slope": ["correct_tip_offset"],
       "correct_split_approach_retract": ["compute_tip_position"]}


DECL0 = {}


def declarations():
    from nanite import preproc as _pp
    return {sid: (list(_pp.get_steps_required(sid) or []), list(getattr(_pp.get_func(sid), "steps_optional", None) or []))
            for sid in STEPS}


def req_ok(steps):
    return all(set(REQ.get(s, [])) <= set(steps[:i]) for i, s in enumerate(steps))


@st.composite
def st_valid_request(draw):
    n = draw(st.integers(0, 6))
    chosen = []
    for _ in range(n):
        cand = [s for s in STEPS if s not in chosen and set(REQ.get(s, [])) <= set(chosen)]
        if not cand:
            break
        chosen.append(draw(st.sampled_from(cand)))
    opts = {}
    if "correct_tip_offset" in chosen and draw(st.booleans()):
        opts["correct_tip_offset"] = {"method": draw(st.sampled_from(POC))}
    if "correct_force_slope" in chosen and draw(st.booleans()):
        o = {}
        if draw(st.booleans()):
            o["region"] = draw(st.sampled_from(["baseline", "approach", "all"]))
        if draw(st.booleans()):
            o["strategy"] = draw(st.sampled_from(["shift", "drift"]))
        opts["correct_force_slope"] = o
    return {"steps": chosen, "opts": opts, "valid": True}


@st.composite
def st_invalid_request(draw):
    base = draw(st_valid_request())
    steps, opts = list(base["steps"]), copy.deepcopy(base["opts"])
    kind = draw(st.sampled_from(["unknown_step", "missing_prerequisite", "wrong_order", "bad_option_value",
                                 "bad_option_name"]))
    if kind == "wrong_order":
        # every step is there, but one that needs others comes first
        movable = [x for x in steps if REQ.get(x)]
        if movable:
            m = draw(st.sampled_from(movable))
            steps.remove(m)
            steps.insert(0, m)
        else:
            steps, opts = ["correct_split_approach_retract", "compute_tip_position"], {}
    elif kind == "unknown_step":
        steps.insert(draw(st.integers(0, len(steps))), draw(st.sampled_from(["bogus_step", "compute_tip_positio", ""])))
    elif kind == "missing_prerequisite":
        s = draw(st.sampled_from(["correct_tip_offset", "correct_force_slope", "correct_split_approach_retract"]))
        steps = [x for x in steps if x != s and x not in REQ[s] and REQ.get(x, []) != [s]]
        steps = [x for x in steps if set(REQ.get(x, [])) <= set(steps)]
        steps.insert(0, s) if draw(st.booleans()) else steps.append(s)
        opts = {k: v for k, v in opts.items() if k in steps}
    else:
        for s in ("compute_tip_position", "correct_tip_offset"):
            if s not in steps:
                steps.append(s)
        steps = sorted(set(steps), key=lambda x: (x != "compute_tip_position", x != "correct_tip_offset", STEPS.index(x)))
        if kind == "bad_option_value":
            which = draw(st.sampled_from(["method", "region", "strategy"]))
            if which == "method":
                opts["correct_tip_offset"] = {"method": "no_such_method"}
            else:
                if "correct_force_slope" not in steps:
                    steps.append("correct_force_slope")
                opts["correct_force_slope"] = {which: "no_such_" + which}
        else:
            opts["correct_tip_offset"] = {"bogus_option": 1}
    if req_ok(steps) and kind in ("missing_prerequisite", "wrong_order"):
        steps = ["correct_tip_offset"]
        opts = {}
    return {"steps": steps, "opts": opts, "valid": False, "kind": kind}


@st.composite
def st_case(draw):
    kind = draw(st.sampled_from(["synth", "synth", "synth", "file", "recorded"]))
    if kind == "recorded":
        src = {"kind": "recorded", "name": recorded.SMALL[0][0], "enum": 0}
    else:
        curve = draw(synth.st_curve(st, models=["hertz_para", "hertz_cone"], n_range=(60, 260), with_tip=False,
                                    noise=st.sampled_from([1e-3, 1e-2]), tilt=True, max_lag=5, wide=False))
        src = {"kind": kind, "curve": curve}
    ops = []
    n = draw(st.integers(2, 7))
    for _ in range(n):
        t = draw(st.sampled_from(["pre", "pre", "pre", "pre_invalid", "pre_invalid", "repeat", "fit", "fitpre",
                                  "fitpre_invalid", "fitopts", "held_edit", "held_edit"]))
        if t == "held_edit":
            # the caller keeps ONE options object, edits a nested value in place and passes the same object again
            ops.append({"op": "held_edit", "method": draw(st.sampled_from(POC)),
                        "region": draw(st.sampled_from(["baseline", "approach", "all"])),
                        "via": draw(st.sampled_from(["apply", "fit"]))})
            continue
        if t == "pre":
            ops.append({"op": "pre", "req": draw(st_valid_request())})
        elif t == "pre_invalid":
            ops.append({"op": "pre", "req": draw(st_invalid_request())})
        elif t == "repeat":
            ops.append({"op": "repeat"})
        elif t == "fit":
            ops.append({"op": "fit", "weight_cp": draw(st.sampled_from([0, 5e-7])),
                        "segment": draw(st.sampled_from([0, 1]))})
        elif t == "fitpre":
            ops.append({"op": "fitpre", "req": draw(st_valid_request())})
        elif t == "fitpre_invalid":
            ops.append({"op": "fitpre", "req": draw(st_invalid_request())})
        else:
            o = {}
            if draw(st.booleans()):
                o["correct_tip_offset"] = {"method": draw(st.sampled_from(POC))}
            if draw(st.booleans()):
                o["correct_force_slope"] = {"region": draw(st.sampled_from(["baseline", "approach", "all"]))}
            ops.append({"op": "fitopts", "opts": o})
    # the history always ends with a valid request that is compared with a fresh curve
    ops.append({"op": "pre", "req": draw(st_valid_request())})
    # another, still untouched curve object whose public pipeline attributes are edited in place by its owner
    return {"src": src, "ops": ops, "attr_inplace": draw(st.sampled_from([False, False, True, False]))}


class Curves:
    """factory of identical fresh curves for one case"""

    def __init__(self, src, ctx):
        self.src = src
        self.path = None
        if src["kind"] == "file":
            self.path = ctx.workdir / "c06_curve.h5"
            if self.path.exists():
                self.path.unlink()
            synth.write_h5([src["curve"]], self.path)

    def fresh(self):
        if self.src["kind"] == "recorded":
            return recorded.fresh(self.src["name"], self.src["enum"])
        if self.src["kind"] == "file":
            import nanite
            return nanite.IndentationGroup(self.path)[0]
        return synth.build(self.src["curve"])


def columns(idnt):
    return {c: (str(idnt[c].dtype), idnt[c].tobytes()) for c in sorted(idnt.columns)}


def raw_snapshot(idnt):
    raw = getattr(idnt, "_raw_data", None)
    out = {}
    if raw is None:
        return out
    for c in list(raw.keys()) if hasattr(raw, "keys") else []:
        try:
            out[c] = np.array(raw[c]).tobytes()
        except Exception:  # lazy containers that cannot be materialised are skipped
            pass
    return out


def apply_fresh(curves, steps, opts):
    f = curves.fresh()
    with fitgen.catch() as box:
        f.apply_preprocessing(copy.deepcopy(steps), copy.deepcopy(opts))
    return f, box["exc"]


def check_case(case, ctx):
    curves = Curves(case["src"], ctx)
    desc0 = {"curve": case["src"]["kind"]}
    DECL0.setdefault("d", declarations())
    if case.get("attr_inplace"):
        other = curves.fresh()
        other.preprocessing.extend(["compute_tip_position", "correct_tip_offset"])
        other.preprocessing_options["correct_tip_offset"] = {"method": "fit_constant_line"}
        probe = curves.fresh()
        ctx.check(probe.preprocessing == [] and probe.preprocessing_options == {}, "state-shared-between-curves", desc0,
                  f"after in-place edits of ANOTHER curve's preprocessing / preprocessing_options a new curve reports "
                  f"{probe.preprocessing} {probe.preprocessing_options}")
        ctx.event("attr_inplace_on_other_curve")
    idnt = curves.fresh()
    raw0 = raw_snapshot(idnt)
    last_req = None
    distinct_valid = set()
    had_reject_then_more = False
    rejected_before = False
    edits = False
    fresh_cols = columns(idnt)
    held = {"steps": ["compute_tip_position", "correct_tip_offset", "correct_force_slope"],
            "opts": {"correct_tip_offset": {"method": "deviation_from_baseline"},
                     "correct_force_slope": {"region": "baseline", "strategy": "shift"}}}
    held_used = False
    for n, op in enumerate(case["ops"]):
        kind = op["op"]
        if kind == "held_edit":
            if held_used:
                held["opts"]["correct_tip_offset"]["method"] = op["method"]
                held["opts"]["correct_force_slope"]["region"] = op["region"]
            held_used = True
            desc = dict(desc0, via="same objects re-passed (" + op["via"] + ")", request="valid")
            with fitgen.catch() as box:
                if op["via"] == "apply":
                    idnt.apply_preprocessing(held["steps"], held["opts"])
                else:
                    idnt.fit_model(model_key="hertz_para", preprocessing=held["steps"], preprocessing_options=held["opts"])
            f, exc_fresh = apply_fresh(curves, held["steps"], held["opts"])
            if exc_fresh is None and (box["exc"] is None or op["via"] == "fit"):
                ctx.check(columns_equal(ctx, idnt, f, ignore_fit=True), "columns-differ-from-fresh", desc,
                          f"step {n}: options object edited in place to {held['opts']} and passed again: {diff_cols(idnt, f)}")
                ctx.check(idnt.preprocessing_options == held["opts"], "applied-request-not-reported", desc,
                          f"step {n}: curve reports {idnt.preprocessing_options}")
                distinct_valid.add(repr((held["steps"], held["opts"])))
                edits = True
                last_req = {"op": "pre", "req": {"steps": list(held["steps"]), "opts": copy.deepcopy(held["opts"]), "valid": True}}
            continue
        if kind == "repeat":
            if last_req is None:
                continue
            op = dict(last_req)
            kind = op["op"]
        if rejected_before:
            had_reject_then_more = True
        if kind == "fit":
            with fitgen.catch():
                idnt.fit_model(model_key="hertz_para", weight_cp=op["weight_cp"], segment=op["segment"])
            continue
        if kind == "fitopts":
            steps = copy.deepcopy(idnt.preprocessing)
            opts = copy.deepcopy(op["opts"])
            f, exc_fresh = apply_fresh(curves, steps, opts)
            desc = dict(desc0, via="fit_model(preprocessing_options=...)")
            with fitgen.catch() as box:
                idnt.fit_model(model_key="hertz_para", preprocessing_options=copy.deepcopy(opts))
            if exc_fresh is None and box["exc"] is None:
                ctx.check(columns_equal(ctx, idnt, f, ignore_fit=True), "columns-differ-from-fresh", desc,
                          f"step {n}: options {opts} for steps {steps}: {diff_cols(idnt, f)}")
                last_req = {"op": "pre", "req": {"steps": steps, "opts": opts, "valid": True}}
            continue
        req = op["req"]
        steps, opts = copy.deepcopy(req["steps"]), copy.deepcopy(req["opts"])
        via = "apply_preprocessing" if kind == "pre" else "fit_model(preprocessing=...)"
        desc = dict(desc0, via=via, request="valid" if req["valid"] else req["kind"])
        with fitgen.catch() as box:
            if kind == "pre":
                idnt.apply_preprocessing(copy.deepcopy(steps), copy.deepcopy(opts))
            else:
                idnt.fit_model(model_key="hertz_para", preprocessing=copy.deepcopy(steps),
                               preprocessing_options=copy.deepcopy(opts))
        f, exc_fresh = apply_fresh(curves, steps, opts)
        if req["valid"] and exc_fresh is not None:
            # a step body raised on this curve (e.g. smoothing gave up): not a rejection by the rules; the
            # history continues, nothing is compared
            ctx.event("valid_request_raised_on_fresh_" + type(exc_fresh).__name__)
            last_req = op
            continue
        if not req["valid"]:
            ctx.check(exc_fresh is not None, "invalid-request-accepted", desc, f"fresh curve accepted {steps} {opts}")
            if kind == "pre":
                ctx.check(box["exc"] is not None, "rejected-request-accepted-after-history", desc,
                          f"step {n}: request {steps} {opts} is rejected on a fresh curve "
                          f"({type(exc_fresh).__name__}) but accepted after this history")
            elif box["exc"] is None:
                ctx.fail("rejected-request-accepted-after-history", desc,
                         f"step {n}: fit_model(preprocessing={steps}, options={opts}) accepted")
            remembered = (idnt.preprocessing == steps and idnt.preprocessing_options == opts) or \
                         (idnt.fit_properties.get("preprocessing") == steps
                          and idnt.fit_properties.get("preprocessing_options") == opts)
            ctx.check(not remembered, "rejected-request-remembered", desc,
                      f"step {n}: after rejecting {steps} {opts} the curve reports it as applied "
                      f"(preprocessing={idnt.preprocessing}, fit_properties={idnt.fit_properties.get('preprocessing')})")
            rejected_before = True
            last_req = op
            continue
        # valid request
        if kind == "pre":
            ctx.check(box["exc"] is None, "valid-request-rejected-after-history", desc,
                      f"step {n}: {steps} {opts} raised {box['exc']!r} after this history, not on a fresh curve")
            if box["exc"] is not None:
                continue
        elif box["exc"] is not None:
            # fit_model itself may reject the fit (e.g. no tip position); preprocessing must still be as on fresh
            ctx.event("fitpre_fit_rejected")
        ctx.check(columns_equal(ctx, idnt, f, ignore_fit=True), "columns-differ-from-fresh", desc,
                  f"step {n}: request {steps} {opts}: {diff_cols(idnt, f)}")
        ctx.check(idnt.preprocessing == steps and idnt.preprocessing_options == opts, "applied-request-not-reported", desc,
                  f"step {n}: curve reports {idnt.preprocessing} {idnt.preprocessing_options} after applying {steps} {opts}")
        if kind == "pre":
            # re-applying changes no byte
            before = columns(idnt)
            idnt.apply_preprocessing(copy.deepcopy(steps), copy.deepcopy(opts))
            ctx.check(columns(idnt) == before, "reapply-changes-data", desc, f"step {n}: re-applying {steps} changed columns")
        distinct_valid.add(repr((steps, opts)))
        if columns(f) != fresh_cols:
            edits = True
        last_req = op
    # the step declarations (module-level) are not changed by any request, accepted or rejected
    now = declarations()
    ctx.check(now == DECL0["d"], "step-declarations-changed", desc0,
              f"required/optional steps now {[(k, v) for k, v in now.items() if v != DECL0['d'][k]]}, "
              f"at the start of the run {[(k, v) for k, v in DECL0['d'].items() if v != now[k]]}")
    raw1 = raw_snapshot(idnt)
    ctx.check(raw0 == raw1, "raw-data-modified", desc0, f"raw columns changed: {[c for c in raw0 if raw0[c] != raw1.get(c)]}")
    if case["src"]["kind"] == "file":
        ref = curves.fresh()
        idnt.apply_preprocessing([])
        ctx.check(columns(idnt) == columns(ref), "raw-data-modified", desc0, "file-backed curve differs from re-read file after reset")
    ctx.note_case(case, nontrivial=bool((len(distinct_valid) >= 2 and edits) or had_reject_then_more),
                  classes=[case["src"]["kind"], "has_rejection" if rejected_before else "no_rejection"])


def columns_equal(ctx, a, b, ignore_fit=False):
    ca, cb = columns(a), columns(b)
    if ignore_fit:
        for c in ("fit", "fit residuals", "fit range"):
            ca.pop(c, None)
            cb.pop(c, None)
    return ca == cb


def diff_cols(a, b):
    ca, cb = columns(a), columns(b)
    out = []
    for c in sorted(set(ca) | set(cb)):
        if c in ("fit", "fit residuals", "fit range"):
            continue
        if c not in ca or c not in cb:
            out.append(f"column '{c}' only in {'history' if c in ca else 'fresh'} curve")
        elif ca[c] != cb[c]:
            d = np.abs(np.asarray(a[c], float) - np.asarray(b[c], float))
            out.append(f"column '{c}' differs in {int(np.sum(d > 0))} samples (max {np.nanmax(d):.3e})")
    return "; ".join(out)


def run(ctx):
    ctx.hypothesis(st_case(), check_case, ctx.scale(1200, 24000), label="history")


def replay(case, ctx):
    check_case(case, ctx)
