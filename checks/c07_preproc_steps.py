"""C07 — each preprocessing step does what its description says.

For (well-formed curve) x (step) x (option value) a valid pipeline ending in the step is
applied through ``Indentation.apply_preprocessing``; the pipeline without its last step is
applied to a second, fresh copy of the same curve.  The oracle are the defining relations
of the step between the two column sets ("before" / "after"); nothing of nanite's step code
is re-used (contact indices come from the public ``nanite.poc.compute_poc``).
"""
import copy
import warnings

import numpy as np
from hypothesis import strategies as st

from vlib import recorded, synth

PROPERTY = "C07"
SHARDS = {"quick": 8, "thorough": 16}
EPS = float(np.finfo(float).eps)

CTP, CFO, CTO = "compute_tip_position", "correct_force_offset", "correct_tip_offset"
CFS, SPLIT, SMOOTH = "correct_force_slope", "correct_split_approach_retract", "smooth_height"
POC = ["deviation_from_baseline", "fit_constant_line", "fit_constant_polynomial",
       "fit_line_polynomial", "frechet_direct_path", "gradient_zero_crossing"]
REGIONS = ["baseline", "approach", "all"]
STRATEGIES = ["shift", "drift"]
HEIGHTS = ["height (measured)", "height (piezo)", "tip position"]
#: columns a step may change (everything else must stay bit-identical)
OWNED = {CTP: {"tip position"}, CFO: {"force"}, CTO: {"tip position"}, CFS: {"force"},
         SPLIT: {"segment"}, SMOOTH: set(HEIGHTS)}
#: the 16 (step, option value) combinations of the quantifier
COMBOS = ([(CTP, {}), (CFO, {}), (SPLIT, {}), (SMOOTH, {})]
          + [(CTO, {"method": m}) for m in POC]
          + [(CFS, {"region": r, "strategy": s}) for r in REGIONS for s in STRATEGIES])
#: the two steps without options are drawn three times as often as one option value of the others
EXTRA_WEIGHT = [(SPLIT, {}), (SMOOTH, {})] * 2
#: number of prefix variants per step (see ``prefix``)
NVARIANTS = {CTP: 2, CFO: 3, CTO: 2, CFS: 1, SPLIT: 4, SMOOTH: 4}
MAX_RUNS = 300

RULE = ("Hypothesis draws (synthetic curve: 5 models, parameters over the bounds, 60-1200 samples per segment, "
        "linear / jittered / quadratic sampling, noise 0 or 1e-4..3e-2 of the force range, spatial tilt and temporal "
        "drift up to +-0.3 force ranges, segment flag flipping up to 3 % of the record before the turning point, "
        "height quantisation 1e-11..2e-9 m, height sensor noise 0..4 sample steps, innate tip column or not) x "
        "(one of the 16 (step, option value) combinations: tip-sample separation, force offset, 6 contact point "
        "methods, 3 regions x 2 strategies, segment discovery, height smoothing) x (a valid pipeline prefix for the "
        "step, with drawn options); the 20 well-formed recorded curves x the 16 combinations are enumerated in every "
        "run. non-trivial = the step changes at least one sample of a column it owns (or creates the tip column); "
        "distinct = distinct case record")
ASSUMPTIONS = [
    "well-formed (fixed by the generator, verified per case): baseline >= 10 % of the approach and >= 20 samples, "
    "each flagged segment >= 30 samples, noise <= 3 % of the force range (force rises > 10x above the noise), "
    "heights monotonic up to noise (height = tip - force / k + sensor noise of <= 4 mean sample steps; for height "
    "smoothing a lagged segment flag is repaired by segment discovery first, as the step declares), at most "
    + str(MAX_RUNS) + " runs of equal heights per segment (smooth_axis_monotone resolves one run per iteration and "
    "gives up at its documented max_iter=1000); recorded curves: the files not labelled 'bad'",
    "a pipeline is valid when required steps come earlier and optional predecessors, when present, come earlier",
    "contact indices are those of the public nanite.poc.compute_poc on the 'before' force; cases in which it "
    "returns an index outside [0, n) (defect of the estimators, property C08) are outside the domain and counted "
    "in classes.poc_out_of_range_skipped",
    "constant shift: |(before - after)_i - c| <= eps x (|before_i| + |after_i| + |c|) (one rounding of the "
    "subtraction); mean pre-contact force after offset correction <= 8 eps x max|force| (rounding of a mean)",
    "slope correction: (before - after) is affine in the abscissa to 1e-9 of its range + 64 eps x max|force| "
    "(evaluation of slope*x+intercept and one subtraction); no jump: the affine correction is zero (same tolerance) "
    "at the last sample of the region or at the first sample behind it, region end read off the changed samples for "
    "region='approach'; remaining baseline trend (independent regression up to the contact index) <= 1e-6 x |original "
    "slope| + 1e-9 x force range / baseline length; the contact index of the step is the first zero of the tip "
    "position left by correct_tip_offset; baselines of < 2 samples are skipped (classes.degenerate_baseline_skipped)",
    "farthest point: the first retract sample t is not strictly dominated (no sample with lower tip position and "
    "higher force: any metric increasing in indentation and force puts that sample farther away) and equals the "
    "common index when force maximum and tip minimum coincide; the end of region='approach' obeys the same relation",
    "strict monotonicity: all first differences within a flagged segment have one sign and none is zero",
]


# ----------------------------------------------------------------------------
# generator


def count_runs(a):
    """number of maximal runs of >= 2 equal adjacent values"""
    if a.size < 2:
        return 0
    z = np.diff(a) == 0
    return int(np.sum(z & ~np.concatenate([[False], z[:-1]])))


def curve_arrays(curve):
    """vlib.synth arrays plus sensor noise on the measured height (``hnoise`` in units of the mean
    sample step of the height, added before quantisation; the tip position nanite computes inherits it)"""
    a = synth.arrays(curve)
    tm = curve.get("time_mode") or "uniform"
    if tm != "uniform":
        # records are not always sampled equidistantly in time: other rate on the retract, or a dwell at the turn
        n_app = int(curve["n_app"])
        t_old = a["time"]
        dt = np.full(t_old.size, 1e-3)
        if tm == "fast_retract":
            dt[n_app:] = 0.25e-3
        elif tm == "slow_retract":
            dt[n_app:] = 2e-3
        elif tm == "dwell":
            dt[n_app] = 0.5
        t_new = np.concatenate([[0.0], np.cumsum(dt[1:])])
        if curve.get("drift"):
            # the temporal drift follows the real time axis
            a["force"] = (a["force"] - curve["drift"] * a["frange"] * t_old / t_old[-1]
                          + curve["drift"] * a["frange"] * t_new / t_new[-1])
            h = a["tip"] - a["force"] / curve["k"]
            q = curve.get("quant") or 0.0
            a["height"] = np.round(h / q) * q if q else h
        a["time"] = t_new
    hn = curve.get("hnoise") or 0.0
    if hn:
        n = a["tip"].size
        h = a["tip"] - a["force"] / curve["k"]
        rng = np.random.RandomState(int(curve.get("noise_seed", 0)) + 104729)
        h = h + rng.normal(0.0, hn * float(np.ptp(h)) * 2 / n, size=n)
        q = curve.get("quant") or 0.0
        if q:
            h = np.round(h / q) * q
        a["height"] = h
    return a


def build(curve):
    from nanite.indent import Indentation
    a = curve_arrays(curve)
    data = {"force": a["force"].copy(), "height (measured)": a["height"].copy(),
            "segment": a["segment"].copy(), "time": a["time"].copy()}
    if curve.get("with_tip"):
        data["tip position"] = a["tip"].copy()
    return Indentation(data=data, metadata=synth.metadata(curve))


def synth_facts(curve):
    """well-formedness numbers of a synthetic curve record (pure function of the record)"""
    a = curve_arrays(curve)
    n_app, n_ret = int(curve["n_app"]), int(curve["n_ret"])
    seg = a["segment"]
    nb = int(np.sum(a["tip"][:n_app] > curve["params"]["contact_point"]))
    runs = 0
    for s in (0, 1):
        runs = max(runs, count_runs(a["height"][seg == s]))
    runs = max(runs, count_runs(a["height"][:n_app]), count_runs(a["height"][n_app:]))
    return {"n_baseline": nb, "n_app": n_app, "n_ret": n_ret, "n_seg0": int(np.sum(seg == 0)),
            "n_seg1": int(np.sum(seg == 1)), "runs": runs, "noise": curve.get("noise") or 0.0,
            "hnoise": curve.get("hnoise") or 0.0}


def well_formed(f):
    return (f["n_baseline"] >= 20 and f["n_baseline"] >= 0.1 * f["n_app"] and f["n_seg0"] >= 30
            and f["n_seg1"] >= 30 and f["runs"] <= MAX_RUNS and f["noise"] <= 0.03 and f["hnoise"] <= 4)


def make_well_formed(curve, lag_frac):
    """deterministic adjustment of a drawn record into the well-formed domain"""
    c = copy.deepcopy(curve)
    n_app, n = int(c["n_app"]), int(c["n_app"]) + int(c["n_ret"])
    # baseline fraction of the approach travel: >= 12 % and >= 24 samples (jitter moves samples by < 1 step)
    frac = max(0.12, 24.0 / n_app)
    c["z0"] = max(c["z0"], c["depth"] * frac / (1 - frac))
    ncontact = int(n_app * c["depth"] / (c["z0"] + c["depth"]))
    c["lag"] = int(max(0, min(lag_frac * n, n_app - 30, ncontact // 2)))
    for _ in range(14):
        if not c["quant"] or synth_facts(c)["runs"] <= MAX_RUNS:
            break
        c["quant"] = c["quant"] / 2
    else:
        c["quant"] = 0.0
    return c


def prefix(step, variant, m, region, strategy):
    """valid pipelines in front of ``step`` (list of [identifier, options])"""
    cto = [CTO, {"method": m}]
    cfs = [CFS, {"region": region, "strategy": strategy}]
    table = {
        CTP: [[], [[CFO, {}]]],
        CFO: [[], [[CTP, {}]], [[CTP, {}], cto, cfs]],
        CTO: [[[CTP, {}]], [[CFO, {}], [CTP, {}]]],
        CFS: [[[CTP, {}], cto]],
        SPLIT: [[[CTP, {}]], [[CTP, {}], [CFO, {}]], [[CTP, {}], cto, [CFO, {}]], [[CTP, {}], cto, cfs]],
        SMOOTH: [[], [[CTP, {}]], [[CTP, {}], [SPLIT, {}]], [[CTP, {}], cto, [CFO, {}], [SPLIT, {}]]],
    }
    return copy.deepcopy(table[step][variant % len(table[step])])


@st.composite
def st_case(draw):
    curve = draw(synth.st_curve(st, noise=st.sampled_from([0.0, 0.0, 1e-4, 1e-3, 1e-2, 3e-2]), n_range=(60, 1200),
                                tilt=True, drift=True, quant=True, min_baseline_frac=0.12))
    curve["hnoise"] = draw(st.sampled_from([0.0, 0.0, 0.3, 1.0, 2.0, 4.0]))
    curve["time_mode"] = draw(st.sampled_from(["uniform", "uniform", "fast_retract", "slow_retract", "dwell"]))
    curve = make_well_formed(curve, draw(st.sampled_from([0.0, 1.0, 1.0])) * draw(st.floats(0.0, 0.03)))
    step, opt = draw(st.sampled_from(COMBOS + EXTRA_WEIGHT))
    variant = draw(st.integers(0, NVARIANTS[step] - 1))
    if step == SMOOTH and draw(st.sampled_from([False, True, False])):
        # a short hold at the turning point during which the tip rings, damped: a height that is non-monotonic by
        # 1e-9 .. 1e-4 of the travel (far above the resolution of a double, so strict monotonicity is attainable:
        # the amplitude at the end of the hold is >= 5e-11 of the travel)
        m = draw(st.integers(5, max(5, min(200, int(curve["n_ret"]) // 2))))
        curve["ring"] = {"n": m, "amp": 10.0 ** draw(st.floats(-9.0, -4.0)), "period": draw(st.floats(8.0, 80.0)),
                         "tau": m / draw(st.floats(0.3, 3.0))}
        curve["quant"] = 0.0
    if step == SMOOTH and curve["lag"]:
        # a lagged flag leaves V-shaped (not monotonic) heights in the retract segment: the
        # well-formed pipeline repairs the flag first (steps_optional of smooth_height)
        variant = 2 + variant % 2
    pre = prefix(step, variant,
                 draw(st.sampled_from(["deviation_from_baseline", "frechet_direct_path", "gradient_zero_crossing",
                                       "fit_line_polynomial", "fit_line_polynomial", "fit_constant_line",
                                       "fit_constant_polynomial"])),
                 draw(st.sampled_from(REGIONS)), draw(st.sampled_from(STRATEGIES)))
    return {"src": "synth", "curve": curve, "pipe": pre + [[step, dict(opt)]], "details": draw(st.booleans())}


def recorded_cases():
    out = []
    # combination-major order: the expensive estimators are spread over the shards
    for io, (step, opt) in enumerate(COMBOS):
        for ic, (name, enum) in enumerate(recorded.GOOD):
            k = ic + io
            pre = prefix(step, k, "fit_line_polynomial", REGIONS[k % 3], STRATEGIES[k % 2])
            out.append({"src": "recorded", "file": name, "enum": enum, "pipe": pre + [[step, dict(opt)]],
                        "details": k % 3 == 0})
    return out


# ----------------------------------------------------------------------------
# oracle helpers


def fresh(case):
    if case["src"] == "synth":
        return build(case["curve"])
    return recorded.fresh(case["file"], case["enum"])


def snapshot(idnt):
    return {c: np.array(idnt[c], copy=True) for c in idnt.columns}


def same(a, b):
    return a.dtype == b.dtype and a.shape == b.shape and a.tobytes() == b.tobytes()


def split_pipe(pipe):
    ids = [p[0] for p in pipe]
    opts = {p[0]: dict(p[1]) for p in pipe if p[1]}
    return ids, opts


def in_range(idx, n):
    try:
        return bool(np.isfinite(idx)) and int(idx) == idx and 0 <= int(idx) < n
    except (TypeError, ValueError):
        return False


def affine_fit(x, y):
    """least-squares line through (x, y) on a normalised abscissa; returns (callable, slope)"""
    xm = float(np.mean(x))
    xs = float(np.ptp(x)) or 1.0
    u = (x - xm) / xs
    A = np.vstack([u, np.ones_like(u)]).T
    c = np.linalg.lstsq(A, y, rcond=None)[0]
    return (lambda xx: c[0] * (np.asarray(xx) - xm) / xs + c[1]), float(c[0] / xs)


def strictly_dominated(t, tip, force):
    return bool(np.any((tip < tip[t]) & (force > force[t])))


def constant_shift(ctx, before, after, c, desc, name):
    d = before - after
    tol = EPS * (np.abs(before) + np.abs(after) + abs(c))
    bad = np.abs(d - c) > tol
    ctx.check(not bad.any(), name, desc,
              f"(before - after) is not the constant {c!r}: {int(bad.sum())} samples differ, "
              f"max deviation {float(np.max(np.abs(d - c))):.3e} (range of the column {float(np.ptp(before)):.3e})")


# ----------------------------------------------------------------------------
# per-step relations


def rel_tip_position(ctx, b, a, desc, info):
    if info["tip_innate"]:
        ctx.check(same(a["tip position"], b["tip position"]), "innate-tip-column-modified", desc,
                  "tip-sample separation changed an innate 'tip position' column")
        return False
    want = b["height (measured)"] + b["force"] / info["k"]
    got = a["tip position"]
    ok = got.shape == want.shape and np.array_equal(got, want)
    ctx.check(ok, "tip-position-formula", desc,
              "tip position != height (measured) + force / spring constant; max deviation "
              f"{float(np.max(np.abs(got - want))) if got.shape == want.shape else 'shape'} "
              f"(tip range {float(np.ptp(want)):.3e})")
    return True


def rel_force_offset(ctx, b, a, desc, info):
    from nanite import poc
    f0, f1 = b["force"], a["force"]
    idp = poc.compute_poc(f0.copy(), "deviation_from_baseline")
    if not in_range(idp, f0.size):
        return None
    idp = int(idp)
    if idp:
        c = float(np.mean(f0[:idp]))
        m = float(np.mean(f1[:idp]))
        ctx.check(abs(m) <= 8 * EPS * float(np.max(np.abs(f0))), "baseline-mean-not-zero", desc,
                  f"mean force of the {idp} pre-contact samples after correction is {m:.3e} "
                  f"(force range {float(np.ptp(f0)):.3e}, before: {c:.3e})")
    else:
        ctx.event("force_offset_no_baseline")
        c = float(f0[0])
        ctx.check(f1[0] == 0, "baseline-mean-not-zero", desc, "no pre-contact sample: force[0] must become 0")
    constant_shift(ctx, f0, f1, c, desc, "force-offset-not-constant")
    return bool(np.any(f0 != f1))


def rel_tip_offset(ctx, b, a, desc, info):
    t0, t1 = b["tip position"], a["tip position"]
    cpid = info["cpid"]
    ctx.check(t1[cpid] == 0, "tip-not-zero-at-contact-index", desc,
              f"tip position at the estimated contact index {cpid} is {float(t1[cpid]):.3e} after the correction "
              f"(tip range {float(np.ptp(t0)):.3e})")
    constant_shift(ctx, t0, t1, float(t0[cpid]), desc, "tip-offset-not-constant")
    return bool(np.any(t0 != t1))


def rel_force_slope(ctx, b, a, desc, info):
    f0, f1 = b["force"], a["force"]
    tip, n = b["tip position"], b["force"].size
    region, strategy = info["opt"]["region"], info["opt"]["strategy"]
    ab = tip if strategy == "shift" else b["time"]
    changed = f0 != f1
    fmax = float(np.max(np.abs(f0)))
    # contact index = first zero of the tip position (set by correct_tip_offset)
    idp = int(np.argmin(np.abs(tip)))
    if tip[idp] != 0 or idp < 2:
        ctx.event("degenerate_baseline_skipped")
        return bool(changed.any())
    if not changed.any():
        ctx.event("slope_correction_is_zero")
        return False
    last = int(np.where(changed)[0].max())
    if region == "baseline":
        ctx.check(same(f0[idp:], f1[idp:]), "outside-region-modified", desc,
                  f"region=baseline changed {int(changed[idp:].sum())} samples at or behind the contact index {idp}")
        end = idp
    elif region == "approach":
        end = min(last + 2, n)
    else:
        end = n
    corr = (f0 - f1)[:end]
    fit, slope = affine_fit(ab[:end], corr)
    tol = 1e-9 * float(np.ptp(corr)) + 64 * EPS * fmax
    dev = float(np.max(np.abs(fit(ab[:end]) - corr)))
    ctx.check(dev <= tol, "correction-not-affine", desc,
              f"(before - after) over the region [0, {end}) deviates from a line in the abscissa by {dev:.3e} "
              f"(range of the correction {float(np.ptp(corr)):.3e}, force range {float(np.ptp(f0)):.3e})")
    significant = abs(slope) * float(np.ptp(ab[:end])) > 1e6 * EPS * fmax
    if region == "all":
        jump = abs(float(f0[idp] - f1[idp]))
        where = f"contact index {idp}"
    else:
        cand = [abs(float(fit(ab[end - 1])))]
        if end < n:
            cand.append(abs(float(fit(ab[end]))))
        jump = min(cand)
        where = f"end of the region (sample {end - 1} / {end})"
    ctx.check(jump <= tol, "jump", desc,
              f"the correction is {jump:.3e} at the {where}: a step is introduced into the force "
              f"(range of the correction {float(np.ptp(corr)):.3e}, force range {float(np.ptp(f0)):.3e})")
    if region == "all" and significant:
        ctx.check(int(np.sum(~changed)) <= max(3, n // 100), "region-all-not-whole-curve", desc,
                  f"region=all left {int(np.sum(~changed))} of {n} samples unchanged")
    if region == "approach" and significant:
        ia, ib = int(np.argmax(f0)), int(np.argmin(tip))
        cands = [t for t in (end - 1, end) if t < n]
        ok = any(not strictly_dominated(t, tip, f0) for t in cands) and end > idp
        if ia == ib:
            ok = ok and ia in cands
        ctx.check(ok, "approach-region-end-not-at-turning-point", desc,
                  f"region=approach corrected samples [0, {end - 1}) but the force maximum is at {ia} and the tip "
                  f"minimum at {ib} (contact index {idp}, {n} samples)")
    # remaining trend of the baseline
    _, s_old = affine_fit(ab[:idp], f0[:idp])
    _, s_new = affine_fit(ab[:idp], f1[:idp])
    # the library determines the slope with an iterative least-squares fit (lmfit LinearModel, finite-difference
    # Jacobian): on a time axis with a large offset it stops a few 1e-6 of the slope short of the closed-form
    # regression (soak seed 51: 3.3e-6), so "removed" is asserted to 1e-4 of the original trend
    lim = 1e-4 * abs(s_old) + 1e-9 * float(np.ptp(f0)) / (float(np.ptp(ab[:idp])) or 1.0)
    ctx.check(abs(s_new) <= lim, "baseline-trend-remains", desc,
              f"slope of the corrected baseline {s_new:.3e} vs. original {s_old:.3e} (limit {lim:.3e}, {idp} samples)")
    info["idp_slope"] = idp
    return True


def rel_split(ctx, b, a, desc, info):
    s0, s1 = b["segment"], a["segment"]
    tip, force = b["tip position"], b["force"]
    n = s1.size
    si = s1.astype(int)
    sw = np.where(np.diff(si) != 0)[0]
    ok = len(sw) == 1 and si[0] == 0 and si[-1] == 1 and set(np.unique(si)) == {0, 1}
    ctx.check(ok, "segment-not-single-switch", desc,
              f"segment column has {len(sw)} switches, first value {si[0]}, last {si[-1]}{info['warn']}")
    if ok:
        t = int(sw[0]) + 1
        ia, ib = int(np.argmax(force)), int(np.argmin(tip))
        if abs(ia - ib) > max(5, 0.05 * n):
            # the curve handed to the step is not well-formed any more: an earlier step of the pipeline (a slope
            # correction with the strategy that does not fit the curve) has moved the force maximum away from the
            # turning point, "the farthest point" has no meaning then
            ctx.event("split_input_not_well_formed_skipped")
            return not np.array_equal(s0.astype(int), s1.astype(int))
        good = not strictly_dominated(t, tip, force)
        if ia == ib:
            good = good and t == ia
        t0 = int(np.argmax(s0.astype(int) != 0)) if np.any(s0) else -1
        ctx.check(good, "switch-not-at-farthest-point", desc,
                  f"retract starts at sample {t} (was {t0}); force maximum at {ia}, tip minimum at {ib}, "
                  f"{n} samples{info['warn']}")
    return not np.array_equal(s0.astype(int), s1.astype(int))


def rel_smooth(ctx, b, a, desc, info):
    seg = a["segment"].astype(int)
    changed = False
    for col in HEIGHTS:
        if col not in a:
            continue
        changed = changed or bool(np.any(a[col] != b[col]))
        for s in (0, 1):
            runs = count_runs(b[col][seg == s])
            key = "max_equal_height_runs_" + info["src"]
            ctx.extra[key] = max(ctx.extra.get(key, 0), runs)
            d = np.diff(a[col][seg == s])
            if d.size == 0:
                continue
            ok = bool(np.all(d > 0) or np.all(d < 0))
            ctx.check(ok, "not-strictly-monotonic", dict(desc, column=col),
                      f"segment {s} of '{col}' ({d.size + 1} samples): {int((d > 0).sum())} increasing, "
                      f"{int((d < 0).sum())} decreasing, {int((d == 0).sum())} zero first differences "
                      f"({runs} runs of equal values before smoothing)")
    return changed


RELATIONS = {CTP: rel_tip_position, CFO: rel_force_offset, CTO: rel_tip_offset, CFS: rel_force_slope,
             SPLIT: rel_split, SMOOTH: rel_smooth}


# ----------------------------------------------------------------------------
# oracle


def check_case(case, ctx):
    from nanite import poc
    pipe = case["pipe"]
    ids, opts = split_pipe(pipe)
    step, opt = pipe[-1][0], dict(pipe[-1][1])
    desc = dict({"step": step, "source": case["src"]}, **opt)
    classes = [step, case["src"]] + [f"{k}={v}" for k, v in sorted(opt.items())]

    if case["src"] == "synth":
        facts = synth_facts(case["curve"])
        if not well_formed(facts):
            ctx.note_case(case, nontrivial=False, classes=["not_well_formed_skipped"])
            return
        ctx.extra["max_equal_height_runs_generated"] = max(ctx.extra.get("max_equal_height_runs_generated", 0),
                                                           facts["runs"])
        classes += [case["curve"]["model"], "noisy" if case["curve"]["noise"] else "noise_free"]
        for key in ("tilt", "drift", "lag", "quant", "with_tip", "hnoise", "time_mode", "ring"):
            if case["curve"].get(key):
                classes.append(key)

    obj_b, obj_a = fresh(case), fresh(case)
    n = len(obj_a)
    raw_force = np.array(obj_b["force"], copy=True)
    info = {"k": obj_b.metadata.get("spring constant"), "opt": opt, "src": case["src"], "warn": "",
            "tip_innate": "tip position" in obj_b.columns_innate}

    # the domain excludes contact indices outside [0, n) (C08): decided before anything runs
    for pid, popt in pipe[:-1]:
        if pid == CTO:
            # in every prefix the contact point estimation sees the recorded force
            if not in_range(poc.compute_poc(raw_force.copy(), popt["method"]), n):
                ctx.note_case(case, nontrivial=False, classes=["poc_out_of_range_skipped"])
                return

    with warnings.catch_warnings():
        warnings.simplefilter("ignore")
        if ids[:-1]:
            with ctx.no_raise("prefix-raises", desc) as guard:
                obj_b.apply_preprocessing(ids[:-1], options={k: v for k, v in opts.items() if k in ids[:-1]})
            if not guard.ok:
                ctx.note_case(case, nontrivial=False, classes=classes)
                return
        before = snapshot(obj_b)
        if step == CTO:
            cpid = poc.compute_poc(before["force"].copy(), opt["method"])
            if not in_range(cpid, n):
                ctx.note_case(case, nontrivial=False, classes=["poc_out_of_range_skipped"])
                return
            info["cpid"] = int(cpid)
    with warnings.catch_warnings(record=True) as wlist:
        warnings.simplefilter("always")
        with ctx.no_raise("step-raises", desc) as guard:
            ret = obj_a.apply_preprocessing(ids, options=copy.deepcopy(opts))
    if not guard.ok:
        ctx.note_case(case, nontrivial=False, classes=classes)
        return
    after = snapshot(obj_a)
    wsplit = [str(w.message)[:80] for w in wlist if "CannotSplit" in type(w.message).__name__]
    if wsplit:
        info["warn"] = f"; warning: {wsplit[0]}"

    # relations of the step (the first call decides non-triviality, so note the case before verdicts)
    verdicts = []

    class Collect:
        """the relation functions report through this proxy so that the case is counted first"""
        extra = ctx.extra

        def check(self, cond, sub, d=None, detail=""):
            if not cond:
                verdicts.append((sub, d, detail))
            return bool(cond)

        def event(self, label):
            classes.append(label)

    col = Collect()
    # every step: number of points, columns, columns the step does not own
    for c, arr in after.items():
        col.check(arr.shape == (n,), "length-changed", desc, f"column '{c}' has shape {arr.shape}, curve has {n} points")
    new = set(after) - set(before)
    allowed_new = {"tip position"} if step == CTP else set()
    col.check(new <= allowed_new and set(before) <= set(after), "columns-changed", desc,
              f"columns before {sorted(before)}, after {sorted(after)}")
    for c in before:
        if c in after and c not in OWNED[step]:
            col.check(same(before[c], after[c]), "foreign-column-modified", dict(desc, column=c),
                      f"step changed column '{c}' which it does not own "
                      f"({int(np.sum(before[c] != after[c])) if before[c].shape == after[c].shape else 'shape'} samples)")
    col.check(ret is None or ret == {}, "details-returned-unasked", desc, f"ret_details=False returned {type(ret).__name__}")
    shapes_ok = not verdicts
    nontrivial = False
    if shapes_ok:
        nontrivial = RELATIONS[step](col, before, after, desc, info)
        if nontrivial is None:
            ctx.note_case(case, nontrivial=False, classes=["poc_out_of_range_skipped"])
            return
    ctx.note_case(case, nontrivial=bool(nontrivial), classes=classes)
    for sub, d, detail in verdicts:
        ctx.fail(sub, d, detail)

    # details on request, data unchanged
    if case.get("details"):
        obj_d = fresh(case)
        with warnings.catch_warnings():
            warnings.simplefilter("ignore")
            with ctx.no_raise("step-raises", dict(desc, ret_details=True)) as guard:
                det = obj_d.apply_preprocessing(ids, options=copy.deepcopy(opts), ret_details=True)
        if not guard.ok:
            return
        ctx.event("with_details")
        withd = snapshot(obj_d)
        diff = [c for c in after if c not in withd or not same(after[c], withd[c])] + [c for c in withd if c not in after]
        ctx.check(not diff, "details-change-data", desc, f"ret_details=True changes the columns {diff}")
        ctx.check(isinstance(det, dict) and set(det) == set(ids), "details-missing", desc,
                  f"details: {type(det).__name__} {sorted(det) if isinstance(det, dict) else ''} for the steps {ids}")
        if isinstance(det, dict):
            for pid in ids:
                dd = det.get(pid)
                if pid == CTO:
                    ok = isinstance(dd, dict) and dd.get("method") == opts[CTO]["method"]
                    if ok and step == CTO and "plot poc" in dd:
                        ok = [int(v) for v in dd["plot poc"][0]] == [info["cpid"]] * 2
                    ctx.check(ok, "details-wrong", dict(desc, details_of=pid),
                              f"details of {pid}: {sorted(dd) if isinstance(dd, dict) else dd!r}")
                elif pid == CFS:
                    ok = isinstance(dd, dict) and {"plot slope data", "plot slope fit", "norm"} <= set(dd)
                    if ok and step == CFS and "idp_slope" in info:
                        k = info["idp_slope"]
                        ok = (len(dd["plot slope data"][0]) == k and len(dd["plot slope fit"][1]) == k
                              and np.array_equal(dd["plot slope data"][1], before["force"][:k]))
                    ctx.check(ok, "details-wrong", dict(desc, details_of=pid),
                              f"details of {pid}: {sorted(dd) if isinstance(dd, dict) else dd!r}")
                else:
                    ctx.check(dd is None, "details-wrong", dict(desc, details_of=pid), f"details of {pid}: {dd!r}")


def assert_pipelines_valid():
    """generator self-check against the step declarations: required steps earlier, optional
    predecessors earlier when present"""
    from nanite import poc, preproc
    from vlib.runner import HarnessError
    decl = {f.identifier: (list(f.steps_required or []), list(f.steps_optional or [])) for f in preproc.PREPROCESSORS}
    if sorted(decl) != sorted(OWNED) or sorted(p.identifier for p in poc.POC_METHODS) != sorted(POC):
        raise HarnessError(f"steps / contact point methods of the tree differ from the check's tables: {sorted(decl)}")
    for step, nv in NVARIANTS.items():
        for v in range(nv):
            order = [p[0] for p in prefix(step, v, POC[0], REGIONS[0], STRATEGIES[0])] + [step]
            for i, sid in enumerate(order):
                req, opt = decl[sid]
                if not (set(req) <= set(order[:i]) and all(o in order[:i] for o in opt if o in order)):
                    raise HarnessError(f"generated pipeline {order} is not valid")


@st.composite
def st_details_history(draw):
    """a pipeline ending in a step with options, and a second value for those options"""
    case = draw(st_case().filter(lambda c: c["pipe"][-1][0] in (CTO, CFS)))
    step = case["pipe"][-1][0]
    if step == CTO:
        alt = {"method": draw(st.sampled_from(["deviation_from_baseline", "fit_constant_line", "gradient_zero_crossing",
                                               "frechet_direct_path"]))}
    else:
        alt = {"region": draw(st.sampled_from(REGIONS)), "strategy": draw(st.sampled_from(STRATEGIES))}
    return dict(case, kind="details_history", alt=alt)


def deep_equal(a, b):
    if isinstance(a, dict) and isinstance(b, dict):
        return set(a) == set(b) and all(deep_equal(a[k], b[k]) for k in a)
    if isinstance(a, (list, tuple)) and isinstance(b, (list, tuple)):
        return len(a) == len(b) and all(deep_equal(x, y) for x, y in zip(a, b))
    if isinstance(a, np.ndarray) or isinstance(b, np.ndarray):
        return np.array_equal(np.asarray(a), np.asarray(b), equal_nan=True)
    if isinstance(a, float) and isinstance(b, float) and a != a and b != b:
        return True
    return a == b


def check_details_history(case, ctx):
    """the details returned with ret_details=True describe the request they were asked for: options A with details,
    options B without, options B with details - the last answer is that of a fresh curve for options B"""
    ids, opts_a = split_pipe(case["pipe"])
    step = ids[-1]
    opts_b = copy.deepcopy(opts_a)
    opts_b[step] = dict(case["alt"])
    differs = opts_b != opts_a
    ctx.note_case(case, nontrivial=differs, classes=["details_history", step])
    if not differs:
        return
    desc = {"step": step, "source": case["src"], "kind": "details_history"}
    obj = fresh(case)
    with warnings.catch_warnings():
        warnings.simplefilter("ignore")
        with ctx.no_raise("raises", desc) as guard:
            obj.apply_preprocessing(list(ids), copy.deepcopy(opts_a), ret_details=True)
            obj.apply_preprocessing(list(ids), copy.deepcopy(opts_b))
            got = obj.apply_preprocessing(list(ids), copy.deepcopy(opts_b), ret_details=True)
            want = fresh(case).apply_preprocessing(list(ids), copy.deepcopy(opts_b), ret_details=True)
    if guard.ok:
        ctx.check(deep_equal(got, want), "details-of-another-request", desc,
                  f"details returned for options {opts_b.get(step)} after an earlier request with {opts_a.get(step)} "
                  f"differ from those of a fresh curve (keys {sorted(got) if isinstance(got, dict) else got!r})")


def run(ctx):
    assert_pipelines_valid()
    ctx.enumerate(recorded_cases(), check_case, label="recorded")
    ctx.hypothesis(st_case(), check_case, ctx.scale(900, 36000), label="synthetic")
    ctx.hypothesis(st_details_history(), check_details_history, ctx.scale(120, 3600), label="details-history")


def replay(case, ctx):
    if case.get("kind") == "details_history":
        return check_details_history(case, ctx)
    check_case(case, ctx)
