"""C05 — exactly the requested points are fitted.

Set equality between the reported 'fit range' mask and the mask recomputed from the
request; multi-pass anchoring observed through a harness-side lmfit.minimize recorder.
"""
import numpy as np
from hypothesis import strategies as st

from vlib import fitgen, refmodels

PROPERTY = "C05"
SHARDS = {"quick": 8, "thorough": 16}
RULE = ("Hypothesis draws (curve: synthetic or recorded; segment; range type absolute / relative cp / "
        "plateau search; interval: whole, proper sub-interval, bounds snapped onto sample abscissae, inverted, "
        "one-sided (+-inf), zero-width; correction factor; plateau sample count 7..40). non-trivial = the "
        "interval cuts the segment properly (>= 1 segment point excluded and >= 5 included); distinct = "
        "distinct case record")
ASSUMPTIONS = [
    "absolute ranges: exact set equality with segment & (min <= x <= max); zero width selects the segment",
    "relative cp: the final interval is anchored at the contact point returned by the previous (third) pass, "
    "observed by wrapping lmfit.minimize from the harness; exact set equality with that anchor; whether "
    "the anchor has converged after the three passes (|cp(pass 4) - cp(pass 3)| <= 1e-6 x depth) is counted, not asserted",
    "xmin / xmax within 4 ulp of the extreme abscissae of the used points (x*k/k round trip)",
    "plateau search needs >= 7 samples (scipy.signal.filtfilt pad length of the smoothing filter)",
]


@st.composite
def st_case(draw):
    src = draw(fitgen.st_source(st, p_recorded=0.12, synth_kwargs=dict(
        models=list(refmodels.POWER) + ["sneddon_spher_approx"], n_range=(40, 400))))
    cfg = draw(fitgen.st_fit_cfg(st, models=["hertz_para", "hertz_cone", "sneddon_spher_approx"],
                                 methods=("leastsq",), plateau=True, tiny_ranges=True))
    if cfg["optimal_fit_edelta"]:
        # (also more scan depths than the segment has points: the arrays still have the requested length)
        cfg["optimal_fit_num_samples"] = draw(st.sampled_from([draw(st.integers(7, 40)), draw(st.integers(7, 40)),
                                                               draw(st.integers(41, 160))]))
        # upper bound in the baseline region or +inf, lower bound is a don't-care
        hi = draw(st.one_of(st.floats(0.6, 1.0), st.just("inf")))
        cfg["range_frac"] = draw(st.sampled_from([[draw(st.floats(0.0, 0.5)), hi], [hi, draw(st.floats(0.0, 0.5))]]))
        cfg["range_on_samples"] = False
        if src["kind"] == "synth":
            # the search needs negative tip positions in the indentation part
            c = src["curve"]
            c["params"]["contact_point"] = draw(st.floats(-0.3, 0.3)) * c["depth"]
    # optionally a prior fit on the same object whose interval differs only slightly (a few nm or one sample):
    # the second request must not be mistaken for the first
    if src["kind"] == "synth" and not cfg["optimal_fit_edelta"] and draw(st.integers(0, 5)) == 0:
        # a record with three segments (approach / pause / retract): any of them may be fitted
        src["curve"]["n_pause"] = draw(st.integers(20, 60))
        cfg["segment"] = draw(st.sampled_from([0, 1, 2, 2]))
    prior = draw(st.sampled_from([None, None, "nm", "nm", "sample", "plateau"]))
    case = {"src": src, "cfg": cfg, "prior": prior, "prior_shift": draw(st.floats(0.5e-9, 9e-9)),
            "prior_sign": draw(st.sampled_from([1, -1]))}
    if cfg["range_type"] == "relative cp" and cfg["gcf_k"] == 1.0 and not cfg["optimal_fit_edelta"]:
        # the contact point tied by an expression to a varied parameter (the baseline): it is not "varied" itself,
        # yet its fitted value differs from its initial value, and the interval is anchored at the fitted one
        case["cp_expr"] = draw(st.sampled_from([None, None, 0.02, 0.1, -0.05]))
    return case


def expected_mask(x, seg, lo, hi):
    if lo == hi:
        return seg.copy()
    rmin, rmax = min(lo, hi), max(lo, hi)
    return seg & (x >= rmin) & (x <= rmax)


def check_case(case, ctx):
    src, cfg = case["src"], case["cfg"]
    idnt = fitgen.build_source(src)
    k = cfg["gcf_k"]
    kw = fitgen.fit_kwargs(idnt, cfg)
    x = idnt["tip position"].copy()
    seg = idnt["segment"] == fitgen.seg_id(cfg["segment"])
    mode = "plateau" if cfg["optimal_fit_edelta"] else cfg["range_type"]
    desc = {"mode": mode}
    classes = [src["kind"], mode, "k1" if k == 1 else "k!=1"]
    if seg.sum() < 8:
        ctx.note_case(case, nontrivial=False, classes=classes + ["short_segment_skipped"])
        return
    if case.get("prior") and kw["range_x"][0] != kw["range_x"][1] and np.all(np.isfinite(kw["range_x"])):
        kw0 = dict(kw)
        if case["prior"] == "plateau":
            # the prior request ran the plateau search with the same upper bound and another lower bound (a don't-care
            # there); the measured request switches the search off and names its own lower bound, which now counts
            if mode == "absolute":
                r = list(kw["range_x"])
                r[int(np.argmin(r))] += case["prior_shift"] * case["prior_sign"]
                kw0.update(range_x=r, optimal_fit_edelta=True, optimal_fit_num_samples=9)
        elif case["prior"] == "nm":
            d = case["prior_shift"] * case["prior_sign"]
            kw0["range_x"] = [kw["range_x"][0] + d, kw["range_x"][1] + d]
        else:
            xs = np.sort(x[seg])
            step = float(np.median(np.diff(xs))) if xs.size > 2 else 1e-9
            kw0["range_x"] = [kw["range_x"][0] + step * case["prior_sign"], kw["range_x"][1] - step * case["prior_sign"]]
        if list(kw0["range_x"]) != list(kw["range_x"]):
            # (a pause segment has one abscissa only: no sample step, the prior would be the request itself and
            # the measured fit would rightly be skipped)
            with fitgen.catch():
                idnt.fit_model(**kw0)
            classes.append("prior_" + case["prior"])
    if case.get("cp_expr") and mode == "relative cp" and k == 1:
        pi = fitgen.build_source(src).get_initial_fit_parameters(model_key=cfg["model_key"])
        frange = float(np.ptp(idnt["force"])) or 1.0
        cp0, bl0 = float(pi["contact_point"].value), float(pi["baseline"].value)
        slope = case["cp_expr"] * float(np.ptp(x)) / frange
        pi["contact_point"].set(expr="%r + %r * (baseline - %r)" % (cp0, slope, bl0))
        kw["params_initial"] = pi
        classes.append("cp_tied_by_expression")
    with fitgen.MinimizeRecorder() as rec, fitgen.catch() as box:
        idnt.fit_model(**kw)
    if box["exc"] is not None:
        # rejected request (e.g. plateau search on a curve without negative tip positions)
        ctx.note_case(case, nontrivial=False, classes=classes + ["raised_" + type(box["exc"]).__name__])
        return
    fp = idnt.fit_properties
    rng = idnt["fit range"]
    lo, hi = kw["range_x"]
    span = float(x.max() - x.min())
    if mode == "absolute":
        want = expected_mask(x, seg, lo, hi)
    elif mode == "relative cp":
        ctx.check(len(rec.calls) in (1, 2, 3, 4), "pass-count", desc, f"{len(rec.calls)} optimisations")
        if len(rec.calls) < 4:
            # a pass had too few points: unsuccessful fit, nothing to compare
            ctx.note_case(case, nontrivial=False, classes=classes + ["pass_without_points"])
            ctx.check(fp.get("success") is False, "few-points-but-success", desc, f"success={fp.get('success')}")
            return
        cp3 = rec.calls[2]["result"]["contact_point"] / k
        want = expected_mask(x, seg, lo + cp3, hi + cp3)
        # first pass: the whole segment
        ctx.check(rec.calls[0]["x"].size == int(seg.sum()), "first-pass-not-whole-segment", desc,
                  f"first pass used {rec.calls[0]['x'].size} of {int(seg.sum())} segment points")
        if (src["kind"] == "synth" and not src["curve"]["noise"] and not src["curve"].get("tilt")
                and fp.get("success") and src["curve"]["model"] == cfg["model_key"]):
            # the curve follows the fitted model exactly: the anchoring must have converged
            cp4 = fp["params_fitted"]["contact_point"].value
            depth = src["curve"]["depth"]
            ncont = int(np.sum(want & (x < cp4)))
            if ncont >= 8:
                # whether the three anchoring passes have converged depends on the conditioning of the fit (weighting
                # wider than the corrected depth, start far from the optimum ...): counted, not asserted - the mask
                # equality above is exact with respect to the anchor actually used
                ctx.event("anchor_converged" if abs(cp4 - cp3) <= 1e-6 * depth else "anchor_not_converged")
    else:
        n = cfg["optimal_fit_num_samples"]
        da, ea = fp["optimal_fit_delta_array"], fp["optimal_fit_E_array"]
        ctx.check(len(da) == n and len(ea) == n, "scan-sample-count", desc, f"{len(da)}/{len(ea)} samples, requested {n}")
        dd = np.diff(da)
        ctx.check(np.all(dd > 0) or np.all(dd < 0), "scan-grid-not-monotonic", desc, "depth grid not strictly monotonic")
        dopt = fp["optimal_fit_delta"]
        ctx.check(da.min() <= dopt <= da.max(), "optimal-delta-outside-scan", desc,
                  f"optimal_fit_delta={dopt!r} outside [{da.min()!r}, {da.max()!r}]")
        ctx.check(da.min() >= x[seg].min() and da.max() <= 0, "scan-outside-indentation", desc,
                  "scanned depths leave the indentation part of the segment")
        top = max(lo, hi)
        want = expected_mask(x, seg, dopt, top)
        # (scan intervals holding too few points are skipped by the too-few-points guard)
        ctx.check(len(rec.calls) <= n + 1, "pass-count", desc, f"{len(rec.calls)} optimisations for {n} samples")
    nin, nseg = int(want.sum()), int(seg.sum())
    ctx.note_case(case, nontrivial=bool(5 <= nin < nseg), classes=classes + (["on_samples"] if cfg.get("range_on_samples") else []))
    extra = rng & ~want
    missing = want & ~rng
    ctx.check(not extra.any() and not missing.any(), "fit-range-mask", desc,
              f"{int(extra.sum())} extra / {int(missing.sum())} missing points; request [{lo!r}, {hi!r}] "
              f"({mode}), e.g. x={x[extra | missing][:3].tolist()}")
    if fp.get("success"):
        used = x[rng]
        ulp = 4 * np.spacing(np.abs(used).max())
        ctx.check(abs(fp["xmin"] - used.min()) <= ulp and abs(fp["xmax"] - used.max()) <= ulp, "xmin-xmax", desc,
                  f"xmin={fp['xmin']!r} xmax={fp['xmax']!r}, used points span [{used.min()!r}, {used.max()!r}] (k={k})")
        if rec.calls:
            last = rec.calls[-1]["x"]
            ctx.check(last.size == used.size and np.allclose(last, used * k, rtol=1e-15, atol=0), "optimised-points", desc,
                      f"last optimisation ran on {last.size} points, fit range has {used.size}")
        else:
            # no optimisation for this request: legitimate only if an equal request was already fitted
            ctx.event("no_optimisation_for_request")
    else:
        # too-few-points guard: nothing was optimised in the last pass
        nvar = sum(1 for p in fp["params_initial"].values() if p.vary)
        ctx.check(not (nvar < nin - 1), "guard-with-enough-points", desc,
                  f"unsuccessful although {nin} points for {nvar} varied parameters")


def run(ctx):
    ctx.hypothesis(st_case(), check_case, ctx.scale(2400, 60000), label="points")


def replay(case, ctx):
    check_case(case, ctx)
