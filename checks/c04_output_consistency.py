"""C04 — reported fit outputs are mutually consistent.

Everything is recomputed from the reported numbers only: fit column from the reported
parameters (independent reference formulas), residual column from data, fit and the
linear contact-point weights, chi-square from the residual column and the range mask.
"""
import numpy as np
from hypothesis import strategies as st

from vlib import fitgen, hmodels, refmodels

PROPERTY = "C04"
SHARDS = {"quick": 8, "thorough": 16}
RULE = ("Hypothesis draws (curve: synthetic from all models with noise/tilt or recorded JPK curve; fit "
        "configuration: model incl. a harness model with an expression-constrained parameter, segment, range "
        "type and interval incl. inverted / one-sided / tiny intervals that trigger the too-few-points guard, "
        "weighting distance, correction factor, minimizer; initial parameters: guessed, modulus scaled, "
        "fixed/varied pattern with >= 1 varied, bounds around or away from the optimum). non-trivial = "
        "successful fit with >= 1 partially weighted point (0 < w < 1) and >= 1 off-segment point, or the "
        "guard case (unsuccessful fit); distinct = distinct case record")
ASSUMPTIONS = [
    "fit column compared with the independent reference formulas evaluated at the reported parameters in "
    "corrected coordinates (x*k, cp*k); tolerance 1e-9 of the force range (cp/k*k round trip)",
    "weights are measured in corrected coordinates: w = min(|k*(x - cp)| / weight_cp, 1)",
    "chi-square tolerance rtol 1e-9 (summation order)",
    "fixed parameters must be bit-equal to their initial values, except a fixed contact point with k != 1, "
    "which is allowed 4 ulp for the multiply/divide round trip through corrected coordinates",
    "for an unsuccessful fit only what the statement says is asserted: success False, both columns all NaN",
]


@st.composite
def st_case(draw):
    src = draw(fitgen.st_source(st, p_recorded=0.15))
    models = refmodels.MODELS + ["verif_expr"]
    cfg = draw(fitgen.st_fit_cfg(st, models=models, methods=("leastsq", "leastsq", "nelder"), tiny_ranges=True))
    init = {"e_factor": 10 ** draw(st.floats(-1.0, 1.0)),
            "vary": draw(st.lists(st.booleans(), min_size=8, max_size=8)),
            "ebounds": draw(st.sampled_from([None, None, [0.5, 2.0], [1.2, 5.0], [0.01, 0.8]])),
            "cpbounds": draw(st.sampled_from([None, None, None, 0.02, 0.3])),
            # tie one parameter to the modulus by an expression that evaluates to its initial value; optionally a
            # prior fit on the same object with that parameter merely fixed (the request then differs in the
            # expression only)
            "tie": draw(st.sampled_from([None, None, None, "contact_point", "baseline"])),
            # the expression is a product (f*E) or a sum of two terms (a + b*E)
            "tie_form": draw(st.sampled_from(["product", "sum"])),
            "prior_fixed": draw(st.booleans()),
            # an E(delta) scan (Indentation.compute_emodulus_mindelta) after the fit
            "scan_after": draw(st.sampled_from([False, False, False, True, False, False, False, False]))}
    if src["kind"] == "synth" and draw(st.integers(0, 5)) == 0:
        # a record with three segments (approach / pause / retract): any of them may be fitted
        src["curve"]["n_pause"] = draw(st.integers(20, 60))
        cfg["segment"] = draw(st.sampled_from([0, 1, 2, 2]))
    return {"src": src, "cfg": cfg, "init": init}


def setup_params(idnt, case):
    cfg, init = case["cfg"], case["init"]
    pi = idnt.get_initial_fit_parameters(model_key=cfg["model_key"])
    ekey = "E_S" if "E_S" in pi else "E"
    pi[ekey].set(value=pi[ekey].value * init["e_factor"])
    free = [k for k in pi if not pi[k].expr]
    flags = init["vary"][:len(free)]
    if not any(flags):
        flags[0] = True
    for name, fl in zip(free, flags):
        pi[name].set(vary=bool(fl))
    if init["ebounds"]:
        # bounds around or away from the guess; the initial value itself must lie inside them
        # (lmfit clips an out-of-bounds value, also for fixed parameters)
        v = pi[ekey].value
        lo, hi = v * init["ebounds"][0], v * init["ebounds"][1]
        pi[ekey].set(value=min(max(v, lo * 1.01), hi * 0.99), min=lo, max=hi)
    if init["cpbounds"]:
        x = idnt["tip position"]
        span = float(x.max() - x.min())
        v = pi["contact_point"].value
        pi["contact_point"].set(min=v - init["cpbounds"] * span, max=v + init["cpbounds"] * span)
    return pi


def tie_param(pi, name, form="product"):
    """constrain `name` by an expression in the modulus that evaluates to its current value; returns
    (prior parameter set with `name` fixed instead, factor) or (None, None) if not applicable"""
    import copy as _copy
    ekey = "E_S" if "E_S" in pi else "E"
    if name not in pi or pi[name].expr or pi[ekey].expr or not pi[ekey].value:
        return None, None
    # lmfit clips the value of an expression to the parameter's bounds: a tied parameter is unbounded here
    pi[name].set(min=-np.inf, max=np.inf)
    v, e0 = float(pi[name].value), float(pi[ekey].value)
    prior = _copy.deepcopy(pi)
    prior[name].set(vary=False)
    pi[ekey].set(vary=True)
    prior[ekey].set(vary=True)
    if form == "sum":
        a, b = 0.6 * v, 0.4 * v / e0
        pi[name].set(expr="%r + %r*%s" % (a, b, ekey))
        return prior, (a, b)
    factor = v / e0
    pi[name].set(expr="%r * %s" % (factor, ekey))
    return prior, (0.0, factor)


def expected_fit(model_key, pf, xk, k):
    """model evaluated at reported parameters in corrected coordinates"""
    vals = {n: p.value for n, p in pf.items()}
    vals["contact_point"] = vals["contact_point"] * k
    if model_key in refmodels.MODELS:
        return refmodels.force(model_key, xk, vals)
    from nanite import model as nmodel
    md = nmodel.models_available[model_key]
    q = md.get_parameter_defaults()
    for n, v in vals.items():
        if not q[n].expr:
            q[n].set(value=v)
    return md.model(q, xk)


def check_case(case, ctx):
    cfg = case["cfg"]
    idnt = fitgen.build_source(case["src"])
    pi = setup_params(idnt, case)
    tie_factor = prior = None
    if case["init"].get("tie") and cfg["model_key"] != "verif_expr":
        prior, tie_factor = tie_param(pi, case["init"]["tie"], case["init"].get("tie_form", "product"))
    init_state = fitgen.pstate(pi)
    kw = fitgen.fit_kwargs(idnt, cfg, params_initial=pi)
    if prior is not None and case["init"].get("prior_fixed"):
        with fitgen.catch():
            idnt.fit_model(**fitgen.fit_kwargs(idnt, cfg, params_initial=prior))
    k = cfg["gcf_k"]
    wcp = cfg["weight_cp"]
    desc = {"model": cfg["model_key"], "method": cfg["method"], "range_type": cfg["range_type"]}
    x = idnt["tip position"].copy()
    y = idnt["force"].copy()
    seg = idnt["segment"] == fitgen.seg_id(cfg["segment"])
    classes = [case["src"]["kind"], cfg["model_key"], cfg["method"], cfg["range_type"], "k1" if k == 1 else "k!=1",
               "weighted" if wcp else "unweighted"]
    if seg.sum() < 8:
        ctx.note_case(case, nontrivial=False, classes=classes + ["short_segment_skipped"])
        return
    with fitgen.catch() as box:
        idnt.fit_model(**kw)
    if box["exc"] is not None:
        # rejected requests are not this property's subject (e.g. relative-cp pass without points)
        ctx.note_case(case, nontrivial=False, classes=classes + ["raised_" + type(box["exc"]).__name__])
        return
    fp = idnt.fit_properties
    fit, res, rng = idnt["fit"], idnt["fit residuals"], idnt["fit range"]
    # scale of the forces of the record (a pause segment alone has a constant force)
    frange = float(np.max(y) - np.min(y)) or 1e-30
    if not fp.get("success"):
        ctx.note_case(case, nontrivial=True, classes=classes + ["unsuccessful"])
        ctx.check(fp.get("success") is False, "unsuccessful-flag", desc, f"success={fp.get('success')!r}")
        ctx.check(np.all(np.isnan(fit)) and np.all(np.isnan(res)), "unsuccessful-stale-columns", desc,
                  f"{np.sum(~np.isnan(fit))} non-NaN fit values, {np.sum(~np.isnan(res))} non-NaN residuals")
        return
    pf = fp["params_fitted"]
    cp = pf["contact_point"].value
    if wcp:
        w = np.minimum(np.abs(k * (x - cp)) / wcp, 1.0)
    else:
        w = np.ones_like(x)
    partial = bool(np.any((w[seg] > 0) & (w[seg] < 1)))
    ctx.note_case(case, nontrivial=bool(partial and (~seg).any()) or not wcp and bool((~seg).any()),
                  classes=classes + ["successful"] + (["partially_weighted"] if partial else []))

    def consistency(desc):
        """columns, chi-square and range against the reported parameters (read from the curve at call time)"""
        fp = idnt.fit_properties
        pf = fp["params_fitted"]
        fit, res, rng = idnt["fit"], idnt["fit residuals"], idnt["fit range"]
        cp = pf["contact_point"].value
        w = np.minimum(np.abs(k * (x - cp)) / wcp, 1.0) if wcp else np.ones_like(x)
        # fit column
        ctx.check(np.all(np.isnan(fit[~seg])) and np.all(np.isnan(res[~seg])), "off-segment-not-nan", desc,
                  "fit / residual columns hold numbers outside the fitted segment")
        ctx.check(not np.any(np.isnan(fit[seg])), "segment-has-nan", desc, "fit column is NaN inside the fitted segment")
        want = expected_fit(cfg["model_key"], pf, x[seg] * k, k)
        err = np.max(np.abs(fit[seg] - want))
        # models with a half angle: tan(alpha) amplifies the one-ulp difference between alpha*pi/180 and
        # radians(alpha) by x / (sin x cos x), which is unbounded towards the bound alpha = 90 (a varied angle can end there)
        slack = 0.0
        if "alpha" in pf:
            xa = np.radians(pf["alpha"].value)
            cond = 1.0 + abs(xa) / max(abs(np.sin(xa) * np.cos(xa)), 1e-300)
            slack = 8 * np.finfo(float).eps * cond * float(np.max(np.abs(want)))
        # (scale: the data or the fit column itself, whichever is larger - a model far from the data, e.g. the sphere
        # series with a fitted radius 100x below the depth, has values and round-off far above the data range)
        ctx.check(err <= 1e-9 * max(frange, float(np.max(np.abs(want)))) + slack, "fit-column-vs-parameters", desc,
                  f"max |fit - model(params_fitted)| = {err:.3e}, force range {frange:.3e}, k={k}")
        # residual column
        wres = (y[seg] - fit[seg]) * w[seg]
        err = np.max(np.abs(res[seg] - wres))
        ctx.check(err <= 1e-9 * frange, "residual-column", desc,
                  f"max |residuals - (data-fit)*w| = {err:.3e}, force range {frange:.3e}, weight_cp={wcp}, k={k}")
        # chi square
        chi = float(np.sum(res[rng] ** 2))
        floor = (1e-14 * frange) ** 2 * max(int(rng.sum()), 1)   # below round-off of the data themselves
        ctx.check(abs(chi - fp["chi_sqr"]) <= 1e-9 * max(chi, fp["chi_sqr"]) + floor, "chi-square", desc,
                  f"chi_sqr={fp['chi_sqr']!r} but sum(residuals[fit range]^2)={chi!r}")
        ctx.check(np.all(rng <= seg), "range-outside-segment", desc, "fit range includes points of the other segment")

    consistency(desc)
    # parameters
    for name, (v0, mn, mx, vary, expr) in init_state.items():
        p = pf[name]
        if expr:
            continue
        if not vary:
            # the contact point makes a *k ... /k round trip through corrected coordinates
            slack = 4 * np.spacing(abs(v0)) if (name == "contact_point" and k != 1) else 0.0
            ctx.check(abs(p.value - v0) <= slack, "fixed-parameter-changed", dict(desc, param=name),
                      f"{name} fixed at {v0!r} reported as {p.value!r}")
        else:
            # (a contact point sitting on its bound makes the same *k ... /k round trip as the bound: 4 ulp)
            slack = 4 * np.spacing(abs(p.value)) if (name == "contact_point" and k != 1) else 0.0
            ctx.check(mn - slack <= p.value <= mx + slack, "parameter-out-of-bounds", dict(desc, param=name, k1=(k == 1)),
                      f"{name}={p.value!r} outside [{mn!r}, {mx!r}] (k={k})")
    if tie_factor is not None:
        name = case["init"]["tie"]
        ek = "E_S" if "E_S" in pf else "E"
        want = tie_factor[0] + tie_factor[1] * pf[ek].value
        ctx.check(abs(pf[name].value - want) <= 1e-9 * (abs(tie_factor[0]) + abs(tie_factor[1] * pf[ek].value)) + 1e-30,
                  "expression-violated",
                  dict(desc, param=name, prior_fit=bool(case["init"].get("prior_fixed"))),
                  f"{name}={pf[name].value!r} but its expression {tie_factor[0]!r} + {tie_factor[1]!r}*{ek} gives {want!r}")
    if cfg["model_key"] == "verif_expr":
        ctx.check(abs(pf["E2"].value - 2 * pf["E"].value) <= 1e-12 * abs(pf["E"].value), "expression-violated", desc,
                  f"E2={pf['E2'].value!r} != 2*E={2 * pf['E'].value!r}")
    # arguments untouched
    ctx.check(fitgen.pstate(pi) == init_state, "initial-parameters-modified", desc,
              "the caller's initial parameter object changed during fit_model")
    # the E(delta) scan is an additional output: what the curve reports afterwards is still consistent
    if case["init"].get("scan_after") and not cfg.get("optimal_fit_edelta"):
        with fitgen.MinimizeRecorder() as rec, fitgen.catch() as box:
            idnt.compute_emodulus_mindelta()
        if box["exc"] is None and not rec.aborted:
            ctx.event("consistency_after_scan")
            d2 = dict(desc, after="compute_emodulus_mindelta")
            if ctx.check(idnt.fit_properties.get("success") is True and "params_fitted" in idnt.fit_properties,
                         "results-lost-by-scan", d2,
                         f"after the scan: success={idnt.fit_properties.get('success')!r}, params_fitted "
                         f"{'present' if 'params_fitted' in idnt.fit_properties else 'missing'}, columns still filled"):
                consistency(d2)


def run(ctx):
    mods = hmodels.register_all()
    try:
        ctx.hypothesis(st_case(), check_case, ctx.scale(2400, 60000), label="consistency")
    finally:
        hmodels.deregister_all(mods)


def replay(case, ctx):
    mods = hmodels.register_all()
    try:
        check_case(case, ctx)
    finally:
        hmodels.deregister_all(mods)
