"""C11 — the geometrical correction factor rescales the modulus and nothing else.

Metamorphic relation fit(k) vs fit(1) on synthetic curves with known truth, plus a
harness-side lmfit.minimize recorder asserting that the initial contact point handed
to the optimiser is the caller's value times k in *every* pass.
"""
import numpy as np
from hypothesis import strategies as st

from vlib import fitgen, refmodels, synth

PROPERTY = "C11"
SHARDS = {"quick": 8, "thorough": 16}
RULE = ("Hypothesis draws (power-law model, parameters, curve sampling/noise, k in (0.05, 2], segment, "
        "range type absolute / relative cp / plateau search, interval, weighting, initial contact point "
        "offset). non-trivial = k outside [0.99, 1.01] and (multi-pass range type or non-zero initial "
        "contact point); distinct = distinct case record")
ASSUMPTIONS = [
    "minimizer leastsq; agreement tolerance 2e-6 of the natural scale (indentation depth for contact point "
    "and xmin/xmax, force range for baseline and fit column, relative for E*k^p) on noise-free data, "
    "noise-proportional (20 x sigma/sqrt(N)) on noisy data",
    "noisy data only with contact-point weighting off (the statement's domain)",
    "for 'relative cp' on noisy data the two runs may select fit ranges that differ by a boundary sample "
    "(the anchoring contact point differs by rounding); such pairs are counted (class range_flip) and "
    "compared with the noise-proportional tolerance only",
    "plateau search: when the two runs choose different plateau depths (rounding-level differences in the "
    "E(delta) scan change a bin), only the scan arrays are compared (class plateau_flip)",
    "noisy cases are compared only when the fitted interval holds >= 10 in-contact samples covering >= 50 % of "
    "the indentation depth (otherwise E and contact point trade off along a flat valley and two optimiser "
    "paths end at different points of it with equal chi-square; observed, counted as ill_conditioned_skip)",
    "noise-free cases are compared only when the k = 1 fit recovered the generating modulus and contact point to "
    "1e-3 (otherwise the interval / weighting leaves a flat valley; counted as reference_fit_not_converged_skip)",
    "initial modulus of the k-run is pre-scaled by k^-p so both optimisations start at corresponding points",
    "plateau-search cases start at the generating parameters (the scan's shallow sub-fits have a few in-contact "
    "points and a narrow convergence basin; a k-run was observed to end in a second minimum there while the "
    "k=1 run did not - optimiser behaviour, not the correction factor); scan entries whose interval holds less "
    "than 40 % of the indentation depth are not compared",
]
POWER = refmodels.POWER


@st.composite
def st_case(draw):
    curve = draw(synth.st_curve(st, models=list(POWER), n_range=(80, 500), with_tip=True,
                                noise=st.sampled_from([0.0, 0.0, 1e-3, 1e-2]), wide=False))
    depth = curve["depth"]
    rt = draw(st.sampled_from(["absolute", "absolute", "relative cp", "relative cp", "plateau"]))
    noisy = curve["noise"] > 0
    cfg = {"k": draw(st.one_of(st.floats(0.05, 2.0), st.sampled_from([0.5, 0.25, 1.0, 2.0, 1 / np.pi]))),
           "segment": draw(st.sampled_from([0, 0, 1])),
           "range_type": rt,
           "weight_cp": 0 if noisy else draw(st.sampled_from([0, 1e-8, 2e-7, 1e-6])),
           "cp_off": draw(st.sampled_from([0.0, 1.0, -1.0])) * draw(st.floats(0.0, 0.05)),
           "e_factor": 10 ** draw(st.floats(-0.25, 0.25)),
           "num_samples": draw(st.integers(7, 14)),
           # user-set bounds on the contact point, in measured units, relative to the generating contact point
           # (fractions of the depth); the optimum lies inside them
           "cp_bounds": draw(st.sampled_from([None, None, [0.3, 0.3], [0.08, 0.5], [1.5, 0.1]])),
           # contact point held fixed at the generating value / constrained by a two-term expression in the modulus
           # that holds at the generating parameters
           "cp_mode": draw(st.sampled_from(["free", "free", "free", "fixed", "expr"])),
           # scan over k on ONE fitter object (public class nanite.fit.IndentationFitter) vs a new fitter per k
           "reuse_fitter": draw(st.sampled_from([False, False, True, False])),
           # k given by a second fit_model call on its own (after a k = 1 fit with all other settings)
           "two_step": draw(st.sampled_from([False, True, False, False])),
           # no initial parameters: the library guesses them from the data
           "auto_initial": draw(st.sampled_from([False, False, False, False, True, False, False, False]))}
    cp = curve["params"]["contact_point"]
    if rt == "absolute":
        lo = cp - depth * draw(st.floats(0.3, 1.2))
        hi = cp + curve["z0"] * draw(st.floats(0.2, 1.2))
        cfg["range_x"] = draw(st.sampled_from([[0, 0], [lo, hi], [hi, lo]]))
    elif rt == "relative cp":
        cfg["range_x"] = [-depth * draw(st.floats(0.3, 1.2)), curve["z0"] * draw(st.floats(0.2, 1.2))]
    else:
        # plateau search needs negative tip positions in the indentation and the approach segment
        cfg["segment"] = 0
        # the scan fits intervals holding only a handful of in-contact points, whose convergence
        # basin is narrow (C01's subject, not this property's): start the scan at the truth
        cfg["e_factor"] = 1.0
        cfg["cp_off"] = 0.0
        curve["params"]["contact_point"] = draw(st.floats(-0.3, 0.3)) * depth
        cfg["range_x"] = [0.0, curve["params"]["contact_point"] + curve["z0"] * draw(st.floats(0.3, 1.0))]
    return {"curve": curve, "cfg": cfg}


def do_fit(case, k):
    curve, cfg = case["curve"], case["cfg"]
    idnt = fitgen.prep_curve(curve)
    p = POWER[curve["model"]]
    pi = fitgen.initial_from_truth(curve, e_factor=cfg["e_factor"] * k ** -p, cp_off=cfg["cp_off"])
    cpt0 = curve["params"]["contact_point"]
    if cfg.get("cp_mode") == "fixed":
        pi["contact_point"].set(value=cpt0, vary=False)
    elif cfg.get("cp_mode") == "expr" and cpt0 != 0:
        # cp = a + b*E holds at the truth; for the k-run the modulus parameter is E*k^-p, hence b*k^p
        a, b = 0.7 * cpt0, 0.3 * cpt0 / curve["params"]["E"]
        pi["contact_point"].set(expr="%r + %r*E" % (a, b * k ** p))
    if cfg.get("cp_bounds") and cfg.get("cp_mode", "free") == "free":
        cpt = curve["params"]["contact_point"]
        pi["contact_point"].set(min=cpt - cfg["cp_bounds"][0] * curve["depth"], max=cpt + cfg["cp_bounds"][1] * curve["depth"])
    cp_init = pi["contact_point"].value
    kw = dict(model_key=curve["model"], params_initial=pi, segment=cfg["segment"],
              weight_cp=cfg["weight_cp"], gcf_k=k, x_axis="tip position", y_axis="force")
    if cfg["range_type"] == "plateau":
        kw.update(range_type="absolute", range_x=cfg["range_x"], optimal_fit_edelta=True,
                  optimal_fit_num_samples=cfg["num_samples"])
    else:
        kw.update(range_type=cfg["range_type"], range_x=cfg["range_x"])
    if cfg.get("two_step") and k != 1.0:
        # the factor is given in a second call that names nothing else: everything set before stays as it was
        with fitgen.catch():
            idnt.fit_model(**dict(kw, gcf_k=1.0))
        with fitgen.MinimizeRecorder() as rec:
            idnt.fit_model(gcf_k=k)
        return idnt, rec, cp_init, pi
    with fitgen.MinimizeRecorder() as rec:
        idnt.fit_model(**kw)
    return idnt, rec, cp_init, pi


def auto_initial(case, ctx, desc):
    """no initial parameters given: the library's own guess of the contact point is a position on the measured
    axis, the same for every k, and the optimiser starts from guess x k"""
    curve, cfg = case["curve"], case["cfg"]
    k = cfg["k"]
    out = {}
    for kk in (1.0, k):
        idnt = fitgen.prep_curve(curve)
        kw = dict(model_key=curve["model"], segment=cfg["segment"], weight_cp=cfg["weight_cp"], gcf_k=kk,
                  x_axis="tip position", y_axis="force", range_type="absolute", range_x=[0, 0])
        with fitgen.MinimizeRecorder() as rec, ctx.no_raise("fit-raises", dict(desc, k=str(kk), initial="auto")) as guard:
            idnt.fit_model(**kw)
        if not guard.ok or not rec.calls:
            return
        out[kk] = (float(idnt.fit_properties["params_initial"]["contact_point"].value),
                   float(rec.calls[0]["params"]["contact_point"][0]))
    ctx.event("auto_initial_compared")
    g1, gk = out[1.0][0], out[k][0]
    ctx.check(g1 == gk, "initial-cp-not-in-measured-units", dict(desc, initial="auto"),
              f"guessed initial contact point {gk!r} with k={k}, {g1!r} with k=1 (same data)")
    got = out[k][1]
    ctx.check(abs(got - gk * k) <= 1e-12 * abs(gk * k) + 1e-300, "initial-cp-not-in-measured-units",
              dict(desc, initial="auto"), f"optimiser started from {got!r}, guess {gk!r} times k={k} is {gk * k!r}")


def reuse_fitter(ctx, idnt, k2, desc):
    """a fitter that has fitted with one k and is given another k fits like a new fitter with that k"""
    from nanite.fit import IndentationFitter
    out = []
    with fitgen.MinimizeRecorder() as rec, ctx.no_raise("fit-raises", dict(desc, k="fitter re-used")) as guard:
        fa = IndentationFitter(idnt)
        fa.fit()
        fa.fp["gcf_k"] = k2
        fa.fit()
        fb = IndentationFitter(idnt)
        fb.fp["gcf_k"] = k2
        fb.fit()
        for f in (fa, fb):
            pf = f.fp.get("params_fitted")
            out.append({"success": f.fp.get("success"), "xmin": f.fp.get("xmin"), "xmax": f.fp.get("xmax"),
                        "params": None if pf is None else {n: pf[n].value for n in pf},
                        "range": f.fit_range.tolist()})
    ctx.event("fitter_reused")
    if not guard.ok or rec.aborted:
        return
    diff = [key for key in out[0] if repr(out[0][key]) != repr(out[1][key])]
    ctx.check(not diff, "reused-fitter-differs", desc,
              f"fitter fitted with k={idnt.fit_properties.get('gcf_k')!r}, then given k={k2!r}: {diff} differ from a new "
              f"fitter with k={k2!r}: {out[0]['params']} vs {out[1]['params']}")


def check_case(case, ctx):
    curve, cfg = case["curve"], case["cfg"]
    k = cfg["k"]
    p = POWER[curve["model"]]
    multi = cfg["range_type"] != "absolute"
    nontrivial = not (0.99 <= k <= 1.01) and (multi or abs(curve["params"]["contact_point"] + cfg["cp_off"] * curve["depth"]) > 0)
    ctx.note_case(case, nontrivial=nontrivial,
                  classes=[curve["model"], cfg["range_type"], "noisy" if curve["noise"] else "noise_free",
                           "cp_bounded" if cfg.get("cp_bounds") else "cp_unbounded", "cp_" + cfg.get("cp_mode", "free"),
                           "two_step" if cfg.get("two_step") else "one_call",
                           f"segment{cfg['segment']}"])
    desc = {"range_type": cfg["range_type"]}
    if cfg.get("auto_initial"):
        auto_initial(case, ctx, desc)
        return
    with ctx.no_raise("fit-raises", dict(desc, k="1")):
        i1, rec1, cpi1, _ = do_fit(case, 1.0)
    with ctx.no_raise("fit-raises", dict(desc, k="k")):
        ik, reck, cpik, pik = do_fit(case, k)
    f1, fk = i1.fit_properties, ik.fit_properties
    if cfg.get("reuse_fitter"):
        reuse_fitter(ctx, ik, 1.0 if k != 1 else 0.5, desc)
    ctx.check(f1.get("success") is True and fk.get("success") is True, "fit-unsuccessful", desc,
              f"success k=1: {f1.get('success')}, k={k}: {fk.get('success')}")
    # the caller's initial contact point is interpreted in measured units in every pass
    for n, call in enumerate(reck.calls):
        if cfg.get("cp_mode") == "expr":
            break       # the optimiser receives the (rescaled) expression, not a number set by the caller
        got = call["params"]["contact_point"][0]
        ctx.check(abs(got - cpik * k) <= 1e-12 * max(abs(cpik * k), 1e-300) + 1e-300,
                  "initial-cp-not-in-measured-units", desc,
                  f"pass {n + 1}/{len(reck.calls)}: optimizer got initial contact point {got!r}, "
                  f"caller's value {cpik!r} times k={k} is {cpik * k!r}")
    ctx.check(len(reck.calls) == len(rec1.calls), "pass-count-differs", desc,
              f"{len(rec1.calls)} optimisations for k=1, {len(reck.calls)} for k={k}")
    a = synth.arrays(curve)
    depth, frange = curve["depth"], a["frange"]
    nfit = max(int(np.sum(i1["fit range"])), 1)
    sigma = curve["noise"]
    tol = 2e-6 + (20 * sigma / np.sqrt(nfit) if sigma else 0.0)
    p1, pk = f1["params_fitted"], fk["params_fitted"]
    if cfg["range_type"] == "plateau":
        e1, ek = f1["optimal_fit_E_array"], fk["optimal_fit_E_array"]
        d1, dk = f1["optimal_fit_delta_array"], fk["optimal_fit_delta_array"]
        ctx.check(np.array_equal(d1, dk), "plateau-depth-grid-differs", desc, "optimal_fit_delta_array differs")
        # scan entries whose interval holds only the shallowest part of the indentation do not
        # determine E (noise-dominated, optimiser-path dependent): compare the entries whose interval holds
        # at least 40 % of the indentation depth (measured from the generating contact point)
        deep = (curve["params"]["contact_point"] - d1) >= 0.4 * depth
        rel = np.max(np.abs(ek * k ** p - e1)[deep] / np.abs(e1[deep]))
        ctx.check(rel <= 50 * tol, "plateau-scan-differs", desc, f"max rel diff of E(delta)*k^p: {rel:.3e}")
        if abs(f1["optimal_fit_delta"] - fk["optimal_fit_delta"]) > 1e-9 * depth:
            ctx.event("plateau_flip")
            return
    if not sigma:
        # exact data: chi-square at the optimum is ~0 for every k; a k-run that reports success far above it has
        # stopped early (leastsq is not invariant under the rescaling of abscissa and contact point): recorded
        # finding F36, told apart by this descriptor entry
        chik, chi1 = float(fk.get("chi_sqr", 0.0)), float(f1.get("chi_sqr", 0.0))
        stopped = chik > max(1e6 * chi1, (1e-9 * frange) ** 2 * nfit)
        # ... in any pass: a 'relative cp' range is anchored at the contact point an earlier pass returned
        for c1, ck in zip(rec1.calls, reck.calls):
            q1, qk = c1.get("chisqr", 0.0), ck.get("chisqr", 0.0)
            if qk > max(1e6 * q1, (1e-9 * frange) ** 2 * max(len(ck["x"]), 1)):
                stopped = True
        if stopped:
            desc = dict(desc, k_fit="stopped_above_optimum")
    if not sigma:
        # exact data: the relation is asserted when the reference (k = 1) fit has found the generating parameters;
        # otherwise the objective has a flat valley for this interval / weighting (e.g. weighting distance beyond
        # the fitted depth) and two optimiser paths stop at different points of it with chi-square ~ 0
        e_true = curve["params"]["E"]
        if (abs(p1["E"].value / e_true - 1) > 1e-3
                or abs(p1["contact_point"].value - curve["params"]["contact_point"]) > 1e-3 * depth):
            ctx.event("reference_fit_not_converged_skip")
            return
    if sigma:
        # on noisy data the two optimisations agree only where the least-squares problem is
        # well conditioned: the fitted interval must hold a fair part of the indentation
        xin = i1["tip position"][i1["fit range"]]
        cpt = curve["params"]["contact_point"]
        n_contact = int(np.sum(xin < cpt))
        cover = (cpt - xin.min()) / depth if xin.size else 0.0
        if n_contact < 10 or cover < 0.5:
            ctx.event("ill_conditioned_skip")
            return
    same_range = np.array_equal(i1["fit range"], ik["fit range"])
    if not same_range:
        differ = i1["fit range"] != ik["fit range"]
        nd = int(np.sum(differ))
        # 'relative cp' anchors the interval at the contact point of the previous pass, which the
        # two runs know only to rounding: samples sitting on a bound are undetermined
        onbound = False
        if cfg["range_type"] == "relative cp":
            cp1 = p1["contact_point"].value
            xd = i1["tip position"][differ]
            bounds = np.array([cp1 + cfg["range_x"][0], cp1 + cfg["range_x"][1]])
            dist = np.min(np.abs(xd[:, None] - bounds[None, :]), axis=1)
            onbound = bool(np.all(dist <= max(tol, 1e-9) * depth * 10))
        if onbound and nd <= 2:
            ctx.event("range_flip")
            if sigma:
                tol = max(tol, 20 * sigma * nd / np.sqrt(nfit) + 20 * sigma / nfit * nd)
        else:
            ctx.fail("fit-range-differs", desc, f"{nd} samples differ between k=1 and k={k}")
    ctx.check(abs(pk["contact_point"].value - p1["contact_point"].value) <= tol * depth, "contact-point-differs",
              desc, f"cp(k={k})={pk['contact_point'].value!r} cp(1)={p1['contact_point'].value!r} depth={depth:.3e}")
    ctx.check(abs(pk["baseline"].value - p1["baseline"].value) <= tol * frange, "baseline-differs", desc,
              f"baseline(k)={pk['baseline'].value!r} baseline(1)={p1['baseline'].value!r} range={frange:.3e}")
    e1, ek = p1["E"].value, pk["E"].value
    ctx.check(abs(ek * k ** p - e1) <= 10 * tol * abs(e1), "modulus-not-rescaled", desc,
              f"E(k={k})*k^{p}={ek * k ** p!r} vs E(1)={e1!r}")
    seg = a["segment"] == cfg["segment"]
    dfit = np.nanmax(np.abs(ik["fit"][seg] - i1["fit"][seg]))
    ctx.check(np.array_equal(np.isnan(ik["fit"]), np.isnan(i1["fit"])) and dfit <= 10 * tol * frange,
              "fit-curve-differs", desc, f"max |fit(k)-fit(1)| = {dfit:.3e} of range {frange:.3e}")
    if same_range:
        for key in ("xmin", "xmax"):
            ctx.check(abs(fk[key] - f1[key]) <= 1e-9 * (abs(f1[key]) + depth), f"{key}-differs", desc,
                      f"{key}(k={k})={fk[key]!r} {key}(1)={f1[key]!r}")
    # the caller's parameter object is untouched
    ctx.check(pik["contact_point"].value == cpik, "caller-params-modified", desc,
              f"caller's initial contact point changed from {cpik!r} to {pik['contact_point'].value!r}")


def run(ctx):
    ctx.hypothesis(st_case(), check_case, ctx.scale(4000, 120000), label="gcf_k")


def replay(case, ctx):
    check_case(case, ctx)
