"""C08 — contact-point estimators return a usable, scale-independent index.

Four case kinds, all through ``nanite.poc.compute_poc`` (and ``Indentation.estimate_contact_point_index``):

* ``synth``      well-formed synthetic approach+retract curves (all models, noise, tilt, baseline 20-80 %):
                 validity of the index, ret_details form, input untouched, scale / shift invariance
* ``recorded``   the same relational oracles on the recorded curves of tests/data (no ground truth)
* ``clean``      noise-free / low-noise synthetic curves without tilt: distance to the true contact index
* ``degenerate`` constant / decreasing / no-baseline / very short arrays: fallback instead of an exception
"""
import numpy as np
from hypothesis import strategies as st

from vlib import recorded, synth

PROPERTY = "C08"
SHARDS = {"quick": 8, "thorough": 16}

METHODS = ["deviation_from_baseline", "fit_constant_line", "fit_constant_polynomial",
           "fit_line_polynomial", "frechet_direct_path", "gradient_zero_crossing"]
#: estimators that run a Nelder-Mead fit (10-300 ms per call; the other three cost < 1 ms)
FITTING = ("fit_constant_line", "fit_constant_polynomial", "fit_line_polynomial")
#: operations beyond the plain call; the fitting estimators run only the three drawn per case
OPS = ["details", "indent", "pow2", "scale", "units", "shift"]

#: accuracy bound on clean curves: |idx - true| <= PHI * (number of approach samples).  Calibrated with
#: tools/calibrate_c08.py as ~1.5x the largest error over 45 000 distinct clean curves (seeds 1 and 2) on the
#: repaired tree; measured maxima: 0.125 (late side, see PHI_NOISE_FREE) / 0.399 / 0.219 / 0.300 / 0.431 / 0.317
PHI = {
    "deviation_from_baseline": 0.2,
    "fit_constant_line": 0.6,
    "fit_constant_polynomial": 0.33,
    "fit_line_polynomial": 0.45,
    "frechet_direct_path": 0.65,
    "gradient_zero_crossing": 0.48,
}
#: tighter bound for noise-free curves (measured maximum 0.014).  On low-noise curves this estimator is bounded
#: on the late side only: it triggers on the first sample above twice the largest deviation among the first 10 %
#: of the samples, which a later baseline sample exceeds by chance (measured: up to 0.70 too early)
PHI_NOISE_FREE = {"deviation_from_baseline": 0.03}
ONE_SIDED_WITH_NOISE = ("deviation_from_baseline",)
#: the errors are not symmetric: these estimators are biased towards the indentation (late), so on curves whose true
#: contact lies at >= EARLY_FROM of the approach samples the early side has its own, tighter bound
#: (idx - true >= -PHI_EARLY x approach samples).  Measured most-early errors over 39 000 such clean curves
#: (calibration seeds 1-3): 0.000 / 0.067 / 0.078 / 0.017.  (With a shorter baseline the fitting estimators
#: occasionally return index 0, 6 of 67 000 curves: that stays within PHI.)  A fallback to the middle of the data on
#: a curve with 80 % baseline is 0.3 too early
EARLY_FROM = 0.4
PHI_EARLY = {
    "fit_constant_line": 0.05,
    "fit_constant_polynomial": 0.12,
    "fit_line_polynomial": 0.12,
    "frechet_direct_path": 0.05,
}

RULE = ("Hypothesis draws (a) 'synth': a synthetic approach+retract curve (5 models, parameters over 4 decades, "
        "60-3000 samples per segment, baseline 20-80 % of the approach samples, linear/jittered/quadratic "
        "sampling, noise 0 or 1e-5..3e-2 of the force range, tilt 0 or +-1e-3..0.3 force ranges per travel, baseline "
        "offset) "
        "and the transformations x2^j (j in -20..20), xc (c log-uniform 1e-3..1e3), x1e9 (nN units), +s "
        "(|s| <= 10 force ranges) - all six estimators run on every curve, the three fitting estimators run the "
        "plain call and three drawn operations, the others all six; (b) 'recorded': the 20 well-formed recorded "
        "curves with the same transformations; (c) 'clean': synthetic curves without tilt and noise in "
        "{0, 1e-4, 1e-3}, compared with the true contact index; (d) 'degenerate': explicit arrays of 0-12 samples, "
        "constant, plateau (constant up to the maximum at the very end), monotonically decreasing and no-baseline "
        "(contact from the first sample, with or without retract part and noise) arrays of 1-400 samples, in N, nN, "
        "pN and unit scale. "
        "non-trivial = (a) baseline of >= 20 samples, (b)-(d) every case; distinct = distinct case record")
ASSUMPTIONS = [
    "'valid integer index' = a Python int or numpy integer (not bool, not float: the callers use it in force[:idp] and "
    "tip[cpid]) with 0 <= idx < len(force); an index at or beyond the force maximum (outside the clipped approach the "
    "estimator works on, but inside the array that was passed in) is only counted (class index_at_or_past_force_maximum)",
    "true contact index of a synthetic curve = first approach sample with tip position below the contact point; "
    "accuracy bound: |idx - true| <= phi x (number of approach samples; stricter than the full curve length) with "
    "phi = %r, calibrated as ~1.5x the largest error over 45000 distinct clean curves (noise in {0, 1e-4, 1e-3} of the "
    "force range, no tilt, all five models, baseline 20-80 %%) on the repaired tree (tools/calibrate_c08.py: measured "
    "0.125 late side / 0.399 / 0.219 / 0.300 / 0.431 / 0.317 in the order of the estimator list); the maxima of a run "
    "are reported as max_err_<estimator>" % (PHI,),
    "early side: fit_constant_line / fit_constant_polynomial / fit_line_polynomial / frechet_direct_path are biased "
    "towards the indentation, so on curves whose true contact lies at >= 40 %% of the approach samples "
    "idx - true >= -phi_early x approach samples with phi_early = %r (measured most-early errors 0.000 / 0.067 / 0.078 / "
    "0.017 over 39000 such clean curves, calibration seeds 1-3; with a shorter baseline the fitting estimators return "
    "index 0 on 6 of 67000 clean curves, which stays within phi)" % (PHI_EARLY,),
    "deviation_from_baseline: noise-free curves are bounded by phi = %r (measured 0.014); on low-noise curves only "
    "the late side (idx - true <= phi) is asserted, because the documented algorithm triggers on the first sample above "
    "twice the largest deviation among the first 10 %% of the samples and a later baseline sample exceeds that by "
    "chance (measured: up to 0.70 of the approach too early; reported as max_early_deviation_from_baseline)"
    % PHI_NOISE_FREE["deviation_from_baseline"],
    "the bounds are wide because the estimators are biased by construction (frechet_direct_path: 'the length of the "
    "baseline influences the returned contact point'; fit_constant_line fits a line to a curved indentation; "
    "gradient_zero_crossing needs > 50 gradient samples and otherwise falls back to the centre)",
    "shifts are bounded by 10x the force range (beyond that float64 cancellation, not the estimator, moves the index) and "
    "generated noise / tilt amplitudes are exactly 0 or >= 1e-5 / 1e-3 of the force range (a baseline scatter of 1e-90 "
    "force ranges is representable around 0 but is erased by any shift, which legitimately changes a threshold that "
    "is relative to the baseline scatter); "
    "power-of-two factors 2^-20..2^20 keep nN-scale forces far from under/overflow, so every intermediate result scales "
    "exactly and the index must be identical",
    "Nelder-Mead (lmfit/scipy) is deterministic for identical input: the Indentation method and ret_details=True must "
    "give exactly the index of the plain call",
    "degenerate arrays contain finite numbers only (NaN/inf are out of scope); for them the result must be an "
    "integer with 0 <= idx <= max(len-1, 0)",
]


# --------------------------------------------------------------------------
# strategies

def _st_len():
    return st.one_of(st.integers(60, 200), st.integers(200, 1000), st.integers(1000, 3000))


def _st_transform(draw):
    j = draw(st.integers(1, 20)) * draw(st.sampled_from([1, -1]))
    return {"j": j,
            "log10c": draw(st.floats(-3.0, 3.0)),
            "shift": draw(st.sampled_from([1.0, -1.0])) * draw(st.one_of(st.floats(0.0, 10.0), st.floats(0.0, 0.5))),
            "ops": sorted(draw(st.permutations(OPS))[:3])}


@st.composite
def st_curve(draw, clean=False, n_len=None):
    if clean:
        noise = st.sampled_from([0.0, 0.0, 1e-4, 1e-3])
    else:
        # noise and tilt are exactly 0 or large enough to survive a shift by 10 force ranges in float64
        noise = st.one_of(st.sampled_from([0.0, 1e-4, 1e-3, 1e-2, 3e-2]), st.floats(1e-5, 3e-2))
    curve = draw(synth.st_curve(st, noise=noise, n_range=(60, 60), with_tip=False, tilt=False,
                                min_baseline_frac=0.2))
    if not clean:
        curve["tilt"] = draw(st.sampled_from([0.0, 1.0, -1.0])) * draw(st.floats(1e-3, 0.3))
    n_len = n_len or _st_len()
    curve["n_app"] = draw(n_len)
    curve["n_ret"] = draw(n_len)
    # baseline = 20-80 % of the approach *samples* (quadratic sampling: tip ~ u**1.7)
    bl = draw(st.floats(0.2, 0.8))
    q = bl ** 1.7 if curve["sampling"] == "quadratic" else bl
    curve["z0"] = curve["depth"] * q / (1 - q)
    return curve


@st.composite
def st_synth(draw):
    case = {"kind": "synth", "curve": draw(st_curve())}
    case.update(_st_transform(draw))
    # the same curve as integer detector counts (int64 array) next to the float array holding the same values
    case["as_int"] = draw(st.sampled_from([False, False, True, False]))
    return case


@st.composite
def st_shape(draw):
    """a flat baseline followed by a rise that is NOT one of the contact models: saturating (tanh, 1-exp: relaxing
    sample, detector saturation), square-root, linear, power law; approach only or with a mirrored retract"""
    case = {"kind": "shape", "rise": draw(st.sampled_from(["tanh", "sqrt", "relax", "linear", "power"])),
            # (long records matter: the smoothing windows of the estimators grow with the length)
            "n": draw(st.one_of(st.integers(60, 400), st.integers(1000, 3000), st.integers(1200, 6000))),
            "baseline": draw(st.floats(0.2, 0.8)), "steep": draw(st.floats(1.0, 9.0)),
            "retract": draw(st.sampled_from([False, False, True])), "noise": draw(st.sampled_from([0.0, 0.0, 1e-4, 1e-3, 1e-2])),
            "noise_seed": draw(st.integers(0, 2 ** 20)), "unit": draw(st.sampled_from([1e-9, 1.0]))}
    case.update(_st_transform(draw))
    case["ops"] = [o for o in case["ops"] if o != "indent"]
    return case


def shape_array(case):
    n = int(case["n"])
    nb = max(12, int(case["baseline"] * n))
    u = np.linspace(0.0, 1.0, max(n - nb, 8))
    k = case["steep"]
    rise = {"tanh": np.tanh(k * u), "sqrt": np.sqrt(u), "relax": 1 - np.exp(-k * u), "linear": u,
            "power": u ** 1.5}[case["rise"]]
    f = np.concatenate([np.zeros(nb), rise])
    if case["retract"]:
        f = np.concatenate([f, f[::-1][1:]])
    if case["noise"]:
        f = f + np.random.RandomState(int(case["noise_seed"])).normal(0, case["noise"], size=f.size)
    return f * case["unit"]


@st.composite
def st_clean(draw):
    return {"kind": "clean", "curve": draw(st_curve(clean=True))}


@st.composite
def st_recorded(draw, pool):
    name, enum = draw(st.sampled_from(pool))
    case = {"kind": "recorded", "file": name, "enum": enum}
    case.update(_st_transform(draw))
    return case


_POOL = [0.0, 1.0, -1.0, 2.0, 0.5, 3.0, -2.5, 10.0, 1e-3]


SHAPES = ["explicit", "constant", "plateau", "decreasing", "no_baseline"]


@st.composite
def st_degenerate(draw, shape=None):
    shape = shape or draw(st.sampled_from(SHAPES))
    unit = draw(st.sampled_from([1e-9, 1e-9, 1.0, 1e-12]))
    if shape == "explicit":
        vals = draw(st.lists(st.one_of(st.sampled_from(_POOL), st.floats(-10, 10)), min_size=0, max_size=12))
        return {"kind": "degenerate", "shape": shape, "unit": unit, "values": vals,
                "dtype": draw(st.sampled_from(["float", "float", "int", "float"]))}
    n = draw(st.one_of(st.integers(1, 14), st.integers(1, 120), st.integers(1, 400)))
    case = {"kind": "degenerate", "shape": shape, "unit": unit, "n": n,
            "offset": draw(st.sampled_from([0.0, 0.0, 1.0, -3.0, 100.0]))}
    if shape == "plateau":
        case["n_top"] = draw(st.integers(1, 3))
    if shape == "decreasing":
        case["power"] = draw(st.sampled_from([1.0, 0.5, 2.0, 1.5]))
    if shape == "no_baseline":
        # convex (Hertz-like), linear, concave (square-root like: measurement started in contact, relaxing)
        case["power"] = draw(st.sampled_from([1.0, 1.5, 0.5, 0.3, 2.0]))
        case["n_ret"] = draw(st.one_of(st.just(0), st.integers(0, 14), st.integers(0, 400)))
        case["noise"] = draw(st.sampled_from([0.0, 0.0, 1e-3, 1e-2]))
        case["noise_seed"] = draw(st.integers(0, 2 ** 20))
    case["dtype"] = draw(st.sampled_from(["float", "float", "int", "float"]))
    return case


def degenerate_array(case):
    f = _degenerate_array(case)
    if case.get("dtype") == "int":
        # integer counts: same shape, values rounded to 1/1000 of the unit
        return np.round(f / case["unit"] * 1000).astype(np.int64)
    return f


def _degenerate_array(case):
    unit = case["unit"]
    if case["shape"] == "explicit":
        return np.array(case["values"], dtype=float) * unit
    n = int(case["n"])
    i = np.arange(n, dtype=float)
    if case["shape"] == "constant":
        f = np.zeros(n)
    elif case["shape"] == "plateau":      # constant with the maximum at the very end: constant after clipping
        f = np.concatenate([np.zeros(n), np.ones(int(case["n_top"]))])
    elif case["shape"] == "decreasing":
        f = -((i + 1) / n) ** case["power"]
    elif case["shape"] == "no_baseline":
        app = ((i + 1) / n) ** case["power"]
        m = int(case["n_ret"])
        ret = (1 - (np.arange(m, dtype=float) + 1) / (m + 1)) ** case["power"]
        f = np.concatenate([app, ret])
        if case["noise"]:
            rng = np.random.RandomState(int(case["noise_seed"]))
            f = f + rng.normal(0, case["noise"], size=f.size)
    else:
        raise KeyError(case["shape"])
    return (f + case["offset"]) * unit


# --------------------------------------------------------------------------
# oracles

def is_index(v):
    return isinstance(v, (int, np.integer)) and not isinstance(v, (bool, np.bool_))


def call(ctx, sub, desc, force, method, ret_details=False):
    """compute_poc on a private copy; returns (ok, result) and checks that the input is untouched"""
    from nanite import poc
    arg = force.copy()
    res = None
    with ctx.no_raise(sub, desc) as guard:
        if ret_details:
            res = poc.compute_poc(arg, method, ret_details=True)
        else:
            res = poc.compute_poc(arg, method)
    if not guard.ok:
        return False, None
    ctx.check(np.array_equal(arg, force), "input-modified", desc, "compute_poc changed its force argument")
    return True, res


def check_wellformed(case, ctx, force, make_idnt):
    n = force.size
    idmax = int(np.argmax(force))
    frange = float(force.max() - force.min())
    ops_fit = set(case["ops"])
    for m in METHODS:
        desc = {"method": m, "kind": case["kind"]}
        ops = ops_fit if m in FITTING else set(OPS)
        ok, idx = call(ctx, "raises", desc, force, m)
        if not ok:
            continue
        if not ctx.check(is_index(idx), "not-integral", desc, f"compute_poc returned {idx!r} ({type(idx).__name__})"):
            continue
        if not ctx.check(0 <= idx < n, "index-out-of-range", desc,
                         f"index {int(idx)} for a force array of {n} samples (force maximum at {idmax})"):
            continue
        if idx >= idmax:
            # not asserted (the statement only demands an index into the array that was passed in): counted
            ctx.event("index_at_or_past_force_maximum:" + m)
        if "details" in ops:
            ok, res = call(ctx, "raises", dict(desc, call="ret_details"), force, m, ret_details=True)
            if ok:
                good = isinstance(res, tuple) and len(res) == 2 and is_index(res[0]) and isinstance(res[1], dict)
                ctx.check(good, "details-form", desc, f"ret_details=True returned {str(res)[:120]}")
                if good:
                    ctx.check(res[0] == idx, "details-index-differs", desc,
                              f"ret_details=True gives {res[0]}, plain call {idx}")
        if "indent" in ops and make_idnt is not None:
            idnt = make_idnt()
            with ctx.no_raise("raises", dict(desc, call="Indentation")) as guard:
                idx_i = idnt.estimate_contact_point_index(method=m)
            if guard.ok:
                ctx.check(is_index(idx_i) and idx_i == idx, "indentation-index-differs", desc,
                          f"Indentation.estimate_contact_point_index gives {idx_i!r}, compute_poc {idx}")
                # the estimate follows the curve's current force data (column replaced on the same object)
                force2 = np.ascontiguousarray(force[::-1]) + 0.5 * float(np.ptp(force))
                ok2, idx2 = call(ctx, "raises", dict(desc, call="replaced-force"), force2, m)
                idnt["force"] = force2.copy()
                with ctx.no_raise("raises", dict(desc, call="Indentation-replaced-force")) as guard2:
                    idx2_i = idnt.estimate_contact_point_index(method=m)
                if ok2 and guard2.ok:
                    ctx.check(idx2_i == idx2, "indentation-index-stale", desc,
                              f"after replacing the force column the curve estimates {idx2_i!r}, compute_poc on the "
                              f"new data gives {idx2!r} (old data: {idx})")
        if "pow2" in ops:
            ok, i2 = call(ctx, "raises", dict(desc, call="pow2"), force * 2.0 ** case["j"], m)
            if ok:
                ctx.check(is_index(i2) and i2 == idx, "pow2-scale-changes-index", desc,
                          f"idx(2^{case['j']} f) = {i2!r}, idx(f) = {idx} ({n} samples)")
        for op, fac in (("scale", 10.0 ** case["log10c"]), ("units", 1e9)):
            if op in ops:
                ok, i3 = call(ctx, "raises", dict(desc, call=op), force * fac, m)
                if ok:
                    if is_index(i3) and abs(int(i3) - int(idx)) <= 1:
                        ctx.extra["max_index_change_scale"] = max(ctx.extra.get("max_index_change_scale", 0),
                                                                  abs(int(i3) - int(idx)))
                    ctx.check(is_index(i3) and abs(int(i3) - int(idx)) <= 1, "scale-changes-index", desc,
                              f"idx({fac!r} f) = {i3!r}, idx(f) = {idx} ({n} samples)")
        if "shift" in ops:
            s = case["shift"] * frange
            ok, i4 = call(ctx, "raises", dict(desc, call="shift"), force + s, m)
            if ok:
                if is_index(i4) and abs(int(i4) - int(idx)) <= 1:
                    ctx.extra["max_index_change_shift"] = max(ctx.extra.get("max_index_change_shift", 0),
                                                              abs(int(i4) - int(idx)))
                ctx.check(is_index(i4) and abs(int(i4) - int(idx)) <= 1, "shift-changes-index", desc,
                          f"idx(f + {case['shift']!r} ranges) = {i4!r}, idx(f) = {idx} ({n} samples)")


def check_synth(case, ctx):
    curve = case["curve"]
    a = synth.arrays(curve)
    n_app = int(curve["n_app"])
    true_idx = int(np.argmax(a["tip"][:n_app] < curve["params"]["contact_point"]))
    ctx.note_case(case, nontrivial=bool(true_idx >= 20),
                  classes=["synth", curve["model"], "noisy" if curve["noise"] else "noise_free",
                           "tilted" if curve["tilt"] else "flat"])
    check_wellformed(case, ctx, a["force"], lambda: synth.build(curve))
    if case.get("as_int"):
        counts = np.round(a["force"] / a["frange"] * 2.0 ** 20).astype(np.int64)
        for m in METHODS:
            desc = {"method": m, "kind": "synth", "dtype": "int64"}
            ok, idx_i = call(ctx, "raises", desc, counts, m)
            if not ok:
                continue
            ok, idx_f = call(ctx, "raises", dict(desc, dtype="float64"), counts.astype(float), m)
            if ok:
                # an integer array must be handled (valid index, no exception); that it gives the very index of the
                # same values stored as floats is not claimed anywhere (scipy's uniform filter keeps the integer
                # dtype and truncates; measured: 1 sample apart on 1 of 1 200 curves) - the difference is reported
                n_all = counts.size
                ctx.check(is_index(idx_i) and 0 <= idx_i < n_all, "index-out-of-range", desc,
                          f"index {idx_i!r} for an int64 force array of {n_all} samples")
                if is_index(idx_i) and is_index(idx_f):
                    ctx.extra["max_index_change_dtype"] = max(ctx.extra.get("max_index_change_dtype", 0),
                                                               abs(int(idx_i) - int(idx_f)))
        ctx.event("integer_counts")


def check_shape(case, ctx):
    ctx.note_case(case, nontrivial=True, classes=["shape", "rise_" + case["rise"],
                                                  "with_retract" if case["retract"] else "approach_only"])
    check_wellformed(case, ctx, shape_array(case), None)


def check_recorded(case, ctx):
    ctx.note_case(case, nontrivial=True, classes=["recorded"])
    idnt = recorded.fresh(case["file"], case["enum"])
    force = np.array(idnt["force"], dtype=float)
    check_wellformed(case, ctx, force, lambda: recorded.fresh(case["file"], case["enum"]))


def measure_clean(curve, methods=METHODS):
    """{method: (idx, true index)} for one clean curve (also used by tools/calibrate_c08.py)"""
    from nanite import poc
    a = synth.arrays(curve)
    n_app = int(curve["n_app"])
    true_idx = int(np.argmax(a["tip"][:n_app] < curve["params"]["contact_point"]))
    return {m: (poc.compute_poc(a["force"].copy(), m), true_idx) for m in methods}


def check_clean(case, ctx):
    curve = case["curve"]
    n_app = int(curve["n_app"])
    ctx.note_case(case, nontrivial=True,
                  classes=["clean", curve["model"], "noisy" if curve["noise"] else "noise_free"])
    for m in METHODS:
        desc = {"method": m, "kind": "clean"}
        with ctx.no_raise("raises", desc) as guard:
            idx, true_idx = measure_clean(curve, [m])[m]
        if not guard.ok:
            continue
        if not ctx.check(is_index(idx) and 0 <= idx < n_app + int(curve["n_ret"]), "index-out-of-range", desc,
                         f"index {idx!r} for {n_app} + {curve['n_ret']} samples"):
            continue
        err = (int(idx) - true_idx) / n_app
        phi = PHI[m] if curve["noise"] else PHI_NOISE_FREE.get(m, PHI[m])
        if curve["noise"] and m in ONE_SIDED_WITH_NOISE and err < 0:
            ctx.extra["max_early_" + m] = max(ctx.extra.get("max_early_" + m, 0.0), -err)
            continue
        if abs(err) <= phi:
            key = "max_err_" + m + ("_noise_free" if m in PHI_NOISE_FREE and not curve["noise"] else "")
            ctx.extra[key] = max(ctx.extra.get(key, 0.0), abs(err))
        early = m in PHI_EARLY and true_idx >= EARLY_FROM * n_app
        if early and -PHI_EARLY[m] <= err < 0:
            ctx.extra["max_early_" + m] = max(ctx.extra.get("max_early_" + m, 0.0), -err)
        ctx.check(abs(err) <= phi, "far-from-true-contact", dict(desc, model=curve["model"]),
                  f"index {int(idx)}, true contact index {true_idx}: error {err:+.3f} of the {n_app} approach samples, "
                  f"phi = {phi} (noise {curve['noise']}, sampling {curve['sampling']})")
        if early:
            ctx.check(err >= -PHI_EARLY[m], "too-early-contact", dict(desc, model=curve["model"]),
                      f"index {int(idx)}, true contact index {true_idx}: error {err:+.3f} of the {n_app} approach "
                      f"samples, early-side phi = {PHI_EARLY[m]} (noise {curve['noise']}, sampling {curve['sampling']})")


def check_degenerate(case, ctx):
    force = degenerate_array(case)
    n = force.size
    size = "0" if n == 0 else "1" if n == 1 else "2-12" if n <= 12 else ">12"
    ctx.note_case(case, nontrivial=True, classes=["degenerate", case["shape"], "size" + size])
    for m in METHODS:
        desc = {"method": m, "kind": "degenerate", "shape": case["shape"], "size": size}
        for ret_details in (False, True):
            ok, res = call(ctx, "degenerate-raises", desc, force, m, ret_details=ret_details)
            if not ok:
                break
            if ret_details:
                if not ctx.check(isinstance(res, tuple) and len(res) == 2 and isinstance(res[1], dict),
                                 "details-form", desc, f"ret_details=True returned {str(res)[:120]}"):
                    break
                ctx.check(is_index(res[0]) and res[0] == idx, "details-index-differs", desc,
                          f"ret_details=True gives {res[0]!r}, plain call {idx!r}")
            else:
                idx = res
                if not ctx.check(is_index(idx), "not-integral", desc,
                                 f"compute_poc returned {idx!r} ({type(idx).__name__}) for {n} samples"):
                    break
                if not ctx.check(0 <= idx <= max(n - 1, 0), "index-out-of-range", desc,
                                 f"index {int(idx)} for a force array of {n} samples"):
                    break


KINDS = {"shape": check_shape, "synth": check_synth, "recorded": check_recorded, "clean": check_clean, "degenerate": check_degenerate}


def check_case(case, ctx):
    KINDS[case["kind"]](case, ctx)


def run(ctx):
    from nanite import poc
    ids = [p.identifier for p in poc.POC_METHODS]
    if sorted(ids) != sorted(METHODS):
        from vlib.runner import HarnessError
        raise HarnessError(f"estimator list changed: {ids}")
    ctx.extra["estimators"] = sorted(ids)
    # one search per shape: a defect on one kind of degenerate input does not hide the others
    for shape in SHAPES:
        quick, thorough = (480, 12000) if shape == "explicit" else (180, 4800)
        ctx.hypothesis(st_degenerate(shape), check_case, ctx.scale(quick, thorough), label="degenerate-" + shape)
    ctx.hypothesis(st_clean(), check_case, ctx.scale(320, 8000), label="clean")
    ctx.hypothesis(st_shape(), check_case, ctx.scale(160, 4000), label="shape")
    ctx.hypothesis(st_synth(), check_case, ctx.scale(240, 4800), label="synth")
    if ctx.tier == "quick":
        # every well-formed recorded curve once; transformations derived from the run seed
        rng = np.random.RandomState(ctx.seed)
        cases = []
        for name, enum in recorded.GOOD:
            cases.append({"kind": "recorded", "file": name, "enum": enum,
                          "j": int(rng.choice([-1, 1]) * rng.randint(1, 21)),
                          "log10c": float(rng.uniform(-3, 3)), "shift": float(rng.uniform(-10, 10)),
                          "ops": sorted(rng.permutation(OPS)[:3].tolist())})
        ctx.enumerate(cases, check_case, label="recorded")
    else:
        ctx.hypothesis(st_recorded(recorded.GOOD), check_case, ctx.scale(20, 480), label="recorded")


def replay(case, ctx):
    check_case(case, ctx)
