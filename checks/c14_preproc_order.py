"""C14 — preprocessing order rules are enforced and auto-sorting always satisfies them.

Exhaustive enumeration of every ordered selection of the shipped steps (finite
space) against an independent validity predicate written from the step
declarations, plus Hypothesis-generated lists with unknown identifiers.
"""
import itertools

from hypothesis import strategies as st

PROPERTY = "C14"
EXHAUSTIVE = True
SHARDS = {"quick": 8, "thorough": 16}
RULE = ("every ordered selection (permutation of every subset) of the shipped preprocessing "
        "steps is enumerated; non-trivial = the selection contains the required steps of each "
        "member and has >= 2 steps (so an order exists to get wrong); distinct = distinct "
        "ordered selection. Unknown-identifier lists are Hypothesis-generated and counted in "
        "classes.unknown_identifier_lists")
ASSUMPTIONS = [
    "step requirement declarations (steps_required / steps_optional attributes) are the specification",
    "apply() acceptance is decided on a small synthetic curve; a ValueError raised for a missing "
    "requirement is told apart from a ValueError of a step body by its message",
]


def decls():
    from nanite import preproc
    return {f.identifier: (list(f.steps_required or []), list(f.steps_optional or []))
            for f in preproc.PREPROCESSORS}


def closed(sel, D):
    return all(set(D[s][0]) <= set(sel) for s in sel)


def valid(order, D):
    """independent predicate: required steps earlier; optional predecessors earlier when present"""
    for i, s in enumerate(order):
        req, opt = D[s]
        for r in req:
            if r not in order[:i]:
                return False
        for o in opt:
            if o in order and o not in order[:i]:
                return False
    return True


def requirements_met(order, D):
    """acceptance rule of apply(): every step's *required* steps occur earlier"""
    return all(set(D[s][0]) <= set(order[:i]) for i, s in enumerate(order))


_curve = {}


def small_curve(with_tip=False):
    """a fresh curve object; with_tip: the record already carries a "tip position" column (HDF5 / tab exports do)"""
    from vlib import synth
    if "c" not in _curve:
        _curve["c"] = synth.base_case(n_app=220, n_ret=200, noise=2e-3, noise_seed=3)
    return synth.build(dict(_curve["c"], with_tip=bool(with_tip)))


def acceptance(fn):
    """(accepted by the order rule?, message) of one request"""
    try:
        fn()
        return True, ""
    except ValueError as exc:
        return "requires the steps" not in str(exc), str(exc)
    except KeyError as exc:
        return False, str(exc)


def check_selection(sel, ctx):
    from nanite import preproc
    D = decls()
    sel = list(sel)
    is_closed = closed(sel, D)
    ctx.note_case(sel, nontrivial=is_closed and len(sel) >= 2,
                  classes=["closed" if is_closed else "not_closed",
                           "valid_input" if valid(sel, D) else "invalid_input"])
    desc = {}
    if is_closed:
        inp = list(sel)
        try:
            out = preproc.autosort(inp)
        except BaseException as exc:  # noqa
            ctx.fail("autosort-raises", {"exception": type(exc).__name__},
                     f"autosort({sel}) raised {type(exc).__name__}: {exc}")
            out = None
        ctx.check(inp == sel, "autosort-mutates-input", desc, f"{sel} -> {inp}")
        if out is not None:
            ctx.check(sorted(out) == sorted(sel), "autosort-not-permutation", desc, f"{sel} -> {out}")
            ctx.check(valid(out, D), "autosort-invalid-order", desc, f"{sel} -> {out}")
            try:
                preproc.check_order(out)
            except ValueError as exc:
                ctx.fail("autosort-fails-check_order", desc, f"{sel} -> {out}: {exc}")
            try:
                again = preproc.autosort(list(out))
                ctx.check(again == out, "autosort-not-idempotent", desc, f"{out} -> {again}")
            except BaseException as exc:  # noqa
                ctx.fail("autosort-not-idempotent", desc, f"autosort({out}) raised {exc!r}")
            if valid(sel, D):
                ctx.check(out == sel, "autosort-changes-valid-order", desc, f"{sel} -> {out}")
        # check_order agrees with the predicate
        try:
            preproc.check_order(list(sel))
            accepted = True
        except ValueError:
            accepted = False
        ctx.check(accepted == valid(sel, D), "check_order-disagrees", desc,
                  f"check_order({sel}) accepted={accepted}, predicate={valid(sel, D)}")
    # apply accepts iff requirements met
    if len(sel) <= ctx.extra.get("apply_maxlen", 6):
        idnt = small_curve()
        expect = requirements_met(sel, D)
        # three routes into the same function: positional, deprecated keyword, deprecated class
        route = len(sel) % 3
        try:
            if route == 0:
                preproc.apply(idnt, list(sel), options={})
            elif route == 1:
                preproc.apply(idnt, options={}, preproc_names=list(sel))
            else:
                preproc.IndentationPreprocessor.apply(idnt, identifiers=list(sel), options={})
            got = True
            msg = ""
        except ValueError as exc:
            msg = str(exc)
            got = "requires the steps" not in msg
            if got:
                # a step body raised: acceptance by the order rule happened; not this property
                ctx.event("apply_step_body_raised")
        except KeyError as exc:
            got = False
            msg = str(exc)
        ctx.check(got == expect, "apply-acceptance", dict(desc, expect=expect),
                  f"apply({sel}) accepted={got}, requirements met={expect} {msg}")
        # the same rule through the curve object, on a record that ships its own tip position column, and when the
        # request is made a second time on the same object
        idt = small_curve(with_tip=True)
        for attempt in (1, 2):
            got, msg = acceptance(lambda: idt.apply_preprocessing(list(sel), options={}))
            ctx.check(got == expect, "apply-acceptance", dict(desc, expect=expect, route="Indentation", attempt=attempt),
                      f"Indentation.apply_preprocessing({sel}) on a curve with an innate tip position, attempt {attempt}: "
                      f"accepted={got}, requirements met={expect} {msg}")
        # the caller's list object was applied before with other content and is edited in place
        held = ["compute_tip_position"]
        idh = small_curve(with_tip=False)
        idh.apply_preprocessing(held, options={})
        held[:] = list(sel)
        if held != ["compute_tip_position"]:
            got, msg = acceptance(lambda: idh.apply_preprocessing(held, options={}))
            ctx.check(got == expect, "apply-acceptance", dict(desc, expect=expect, route="Indentation", attempt="list edited in place"),
                      f"Indentation.apply_preprocessing with the previously applied list object edited in place to {sel}: "
                      f"accepted={got}, requirements met={expect} {msg}")


def check_unknown(case, ctx):
    from nanite import preproc
    D = decls()
    ids = case["ids"]
    ctx.note_case(case, nontrivial=False, classes=["unknown_identifier_lists"])
    idnt = small_curve()
    first_bad = next(i for i, s in enumerate(ids) if s not in D)
    prefix_ok = requirements_met(ids[:first_bad], D)
    try:
        preproc.apply(idnt, list(ids), options={})
        ctx.fail("apply-accepts-unknown", {}, f"apply({ids}) was accepted")
    except KeyError:
        ctx.check(prefix_ok, "apply-unknown-before-requirement", {},
                  f"apply({ids}): KeyError although an earlier step lacks its requirement")
    except ValueError as exc:
        ctx.check(not prefix_ok or "requires the steps" not in str(exc), "apply-unknown-wrong-error", {},
                  f"apply({ids}) raised ValueError {exc}")
    # through the curve object, twice on the same object, by both entry points
    for name, call in (("apply_preprocessing", lambda o: o.apply_preprocessing(list(ids))),
                       ("fit_model", lambda o: o.fit_model(model_key="hertz_para", preprocessing=list(ids)))):
        obj = small_curve(with_tip=bool(len(ids) % 2))
        for attempt in (1, 2):
            try:
                call(obj)
                ctx.fail("apply-accepts-unknown", {"route": name, "attempt": attempt},
                         f"Indentation.{name}({ids}) was accepted at attempt {attempt} on the same object")
            except (KeyError, ValueError):
                pass
    for fn in (preproc.autosort, preproc.check_order):
        try:
            fn(list(ids))
            ctx.fail("unknown-identifier-accepted", {"fn": fn.__name__}, f"{fn.__name__}({ids}) accepted")
        except KeyError:
            pass
        except ValueError:
            pass


def check_available(case, ctx):
    from nanite import preproc
    D = decls()
    av = list(preproc.available())
    ctx.check(valid(av, D) and sorted(av) == sorted(D), "available-invalid", {}, f"available() = {av}")


#: the order rules as documented for the 6 shipped steps (property statement: 1957 ordered
#: selections, 1424 of them requirement-closed)
PINNED = {
    "compute_tip_position": ([], []),
    "correct_force_offset": ([], ["correct_force_slope"]),
    "correct_force_slope": (["correct_tip_offset"], []),
    "correct_tip_offset": (["compute_tip_position"], []),
    "correct_split_approach_retract": (["compute_tip_position"], ["correct_force_slope"]),
    "smooth_height": ([], ["correct_split_approach_retract", "compute_tip_position", "correct_force_slope"]),
}


def check_declarations(case, ctx):
    D = decls()
    got = {k: (sorted(v[0]), sorted(v[1])) for k, v in D.items()}
    want = {k: (sorted(v[0]), sorted(v[1])) for k, v in PINNED.items()}
    ctx.check(got == want, "declared-order-rules-changed", {},
              f"step declarations differ from the documented rules: "
              f"{ {k: got.get(k) for k in set(got) | set(want) if got.get(k) != want.get(k)} }")
    nclosed = sum(1 for s in all_selections() if closed(s, D))
    ctx.check(nclosed == 1424, "closed-selection-count", {}, f"{nclosed} requirement-closed selections, expected 1424")


def all_selections():
    ids = sorted(decls())
    for r in range(0, len(ids) + 1):
        for sel in itertools.permutations(ids, r):
            yield list(sel)


def run(ctx):
    from nanite import preproc
    D = decls()
    if ctx.shard == 0:
        ctx.direct(check_available, "available")
        ctx.direct(check_declarations, "declarations")
        ctx.extra["n_steps"] = len(D)
    ctx.enumerate(all_selections(), check_selection, label="selection", stop_after=5)
    known = sorted(D)
    unknown = st.text(min_size=0, max_size=12).filter(lambda s: s not in D)
    near = st.sampled_from(known).map(lambda s: s + "_") | st.sampled_from(known).map(lambda s: s.upper())
    strat = st.lists(st.sampled_from(known) | unknown | near, min_size=1, max_size=6).filter(
        lambda l: any(s not in D for s in l)).map(lambda l: {"ids": l})
    ctx.hypothesis(strat, check_unknown, ctx.scale(400, 8000), label="unknown")


def replay(case, ctx):
    if case == "available":
        check_available(case, ctx)
    elif case == "declarations":
        check_declarations(case, ctx)
    elif isinstance(case, dict):
        check_unknown(case, ctx)
    else:
        check_selection(case, ctx)
