"""C02 — shipped models evaluate their published contact-mechanics formulas.

Oracle: independent reference implementations (vlib/refmodels.py) evaluated with
mpmath at 40 digits; bit-exact baseline off contact; exact implicit Sneddon
sphere solution for the series-truncation bound; documented constants.
"""
import math
import re

import numpy as np
from hypothesis import strategies as st

from vlib import refmodels, synth

PROPERTY = "C02"
SHARDS = {"quick": 8, "thorough": 16}
RULE = ("Hypothesis draws (model, parameter vector over the whole box incl. values at/near the bounds, "
        "contact point, baseline, array of 1-12 abscissae built from offsets to the contact point: "
        "exact 0, +-1 ulp, log-uniform 1e-15..1e-4 both signs, up to R for the sphere, unsorted). "
        "non-trivial = at least one point in contact and one out of contact; distinct = distinct case record")
ASSUMPTIONS = [
    "reference formulas written from the papers/docstrings, evaluated with mpmath (40 digits)",
    "round-off tolerance: 64 eps x (sum of magnitudes of the terms added) x condition number of tan(alpha) "
    "for the cone/pyramid; Clifford: terms E_L and |E_S-E_L| enter the bound separately (cancellation)",
    "Bilodeau constant is 0.8887 (the value the repository's tests pin); the docstring is checked against it",
    "series-vs-exact-sphere bound 1e-4 x max force is checked for depths up to R with the exact solution "
    "computed by brentq on the implicit Sneddon equations",
]
EPS = np.finfo(float).eps


def _mp():
    try:
        import mpmath
    except ImportError:
        import subprocess
        import sys
        from vlib.runner import VERIF
        subprocess.run([sys.executable, "-m", "pip", "install", "-q", "--no-index", "--find-links",
                        "/opt/veriftools/wheels", "--target", str(VERIF / ".deps"), "mpmath"], check=False)
        if str(VERIF / ".deps") not in sys.path:
            sys.path.append(str(VERIF / ".deps"))
        import mpmath
    return mpmath


@st.composite
def st_case(draw):
    model = draw(st.sampled_from(refmodels.MODELS))
    logu = lambda lo, hi: st.floats(lo, hi).map(lambda e: 10.0 ** e)  # noqa: E731
    edge = lambda lo, hi: st.one_of(st.floats(lo, hi), st.sampled_from([lo, hi]))  # noqa: E731
    E = logu(0.0, 7.0)
    nu = edge(0.0, 0.5)
    R = logu(-7.5, -3.5)
    if model in ("hertz_para", "sneddon_spher_approx"):
        p = {"E": draw(E), "R": draw(R), "nu": draw(nu)}
        if model == "hertz_para" and draw(st.integers(0, 9)) == 0:
            # the bound R >= 0 is inclusive and the documented Hertz formula is defined there (force = baseline);
            # the sphere series divides by R and is not
            p["R"] = draw(st.sampled_from([0.0, 1e-300, 1e-200, 1e-100]))
    elif model == "hertz_cone":
        p = {"E": draw(E), "alpha": draw(edge(0.01, 89.9)), "nu": draw(nu)}
        if draw(st.integers(0, 19)) == 0:
            # the inclusive bound: tan(90 deg) is singular, so there is no reference value; what remains is that the
            # force off contact is the baseline and that nothing non-finite comes out (the code's tan(pi/2) is 1.6e16)
            p["alpha"] = 90.0
    elif model == "hertz_pyr3s":
        p = {"E": draw(E), "alpha": draw(edge(0.01, 30.0)), "nu": draw(nu)}
    else:
        p = {"E_S": draw(E), "E_L": draw(st.one_of(logu(-1.0, 3.0), st.just(1000.0))), "R": draw(R),
             "nu_S": draw(nu), "nu_L": draw(nu), "t": draw(logu(-11.9, -5.0))}
    cp = draw(st.sampled_from([0.0, 1.0, -1.0])) * draw(logu(-9.0, -4.5))
    bl = draw(st.sampled_from([0.0, 0.0, 1.0, -1.0])) * draw(logu(-12.0, -5.0))
    p["contact_point"] = cp
    p["baseline"] = bl
    dmax = 1e-4
    if "R" in p and model == "sneddon_spher_approx":
        dmax = p["R"]
    n = draw(st.integers(1, 12))
    offs = []
    for _ in range(n):
        kind = draw(st.sampled_from(["zero", "ulp+", "ulp-", "in", "in", "in", "out", "out", "max"]))
        if kind == "zero":
            offs.append(["zero", 0.0])
        elif kind in ("ulp+", "ulp-"):
            offs.append([kind, float(draw(st.integers(1, 4)))])
        elif kind == "max":
            offs.append(["in", dmax])
        else:
            mag = draw(logu(-15.0, math.log10(dmax)))
            offs.append([kind, min(mag, dmax)])
    return {"model": model, "params": p, "offsets": offs}


def build_delta(case):
    cp = case["params"]["contact_point"]
    out = []
    for kind, v in case["offsets"]:
        if kind == "zero":
            out.append(cp)
        elif kind == "ulp+":   # slightly *out of* contact side (delta above cp)
            x = cp
            for _ in range(int(v)):
                x = np.nextafter(x, np.inf)
            out.append(x)
        elif kind == "ulp-":   # slightly in contact
            x = cp
            for _ in range(int(v)):
                x = np.nextafter(x, -np.inf)
            out.append(x)
        elif kind == "in":
            out.append(cp - v)
        else:
            out.append(cp + v)
    return np.array(out, dtype=float)


def tolerance(model, p, d):
    """absolute round-off bound for each point (d = depth >= 0)"""
    if model in ("hertz_cone", "hertz_pyr3s"):
        x = math.radians(p["alpha"])
        cond = 1 + x / abs(math.sin(x) * math.cos(x))
    else:
        cond = 1.0
    if model == "power_layer_clifford_2009":
        geo = 4.0 / 3 * math.sqrt(p["R"]) * d ** 1.5
        mag = geo * (p["E_L"] + abs(p["E_S"] - p["E_L"]))
    else:
        q = dict(p, baseline=0.0)
        mag = np.abs(refmodels.force(model, p["contact_point"] - d, q))
        if model == "sneddon_spher_approx":
            mag = mag * 2  # series terms of alternating sign
    return 64 * EPS * (cond * mag + abs(p["baseline"])) + 1e-300


def check_case(case, ctx):
    import lmfit
    from nanite import model as nmodel
    _mp()
    model = case["model"]
    p = dict(case["params"])
    delta = build_delta(case)
    d = p["contact_point"] - delta
    incontact = d > 0
    ctx.note_case(case, nontrivial=bool(incontact.any() and (~incontact).any()),
                  classes=[model, "has_cp_exact" if (d == 0).any() else "no_cp_exact"])
    md = nmodel.models_available[model]
    desc = {"model": model}
    keys = list(md.parameter_keys)
    kwargs = {k: p[k] for k in keys}
    din = delta.copy()
    with ctx.no_raise("model-raises", desc):
        got = md.module.model_func(din, **kwargs)
    ctx.check(np.array_equal(din, delta), "model-modifies-input", desc, "delta array changed by model_func")
    ctx.check(isinstance(got, np.ndarray) and got.shape == delta.shape, "model-shape", desc,
              f"shape {getattr(got, 'shape', None)} != {delta.shape}")
    # (b) exactly the baseline off contact
    off = ~incontact
    if off.any():
        ok = np.all(got[off] == p["baseline"])
        ctx.check(ok, "off-contact-not-baseline", desc,
                  f"delta-cp={(-d[off]).tolist()} force-baseline={(got[off] - p['baseline']).tolist()}")
    if model == "hertz_cone" and p["alpha"] == 90.0:
        ctx.check(bool(np.all(np.isfinite(got))), "non-finite-at-bound", desc,
                  f"alpha = 90 (inclusive bound): model returned {got.tolist()}")
        return
    # (a) reference to round-off
    ref = refmodels.force_mp(model, delta, p)
    tol = tolerance(model, p, np.where(incontact, d, 0.0))
    err = np.array([abs(float(r - float(g))) for r, g in zip(ref, got)])
    bad = err > tol
    if bad.any():
        i = int(np.argmax(err / tol))
        ctx.fail("formula-mismatch", desc,
                 f"depth={d[i]:.6e} got={got[i]!r} ref={float(ref[i])!r} err={err[i]:.3e} tol={tol[i]:.3e}")
    # the wrapped model (direction agnostic) gives the same numbers for this order
    params = lmfit.Parameters()
    for k in keys:
        params.add(k, value=p[k])
    if delta.size >= 1:
        with ctx.no_raise("wrapped-model-raises", desc):
            got2 = md.model(params, delta.copy())
        # wrapper may reverse the array; same multiset element-wise after un-reversal
        ctx.check(np.array_equal(got2, got), "wrapped-model-differs", desc,
                  f"md.model != model_func: {got2.tolist()} vs {got.tolist()}")


EPS32 = float(np.finfo(np.float32).eps)


def check_case_f32(case, ctx):
    """The same formulas on a single-precision indentation array ("every indentation array": recorded data may be
    float32).  The contact point is 0 here, so that depth = -delta is exact in either precision and no cancellation
    enters the bound; the reference is the mpmath formula at the float32 values, the bound is float32 round-off."""
    from nanite import model as nmodel
    _mp()
    model = case["model"]
    p = dict(case["params"], contact_point=0.0)
    if model == "hertz_cone" and p["alpha"] == 90.0:
        return
    delta = build_delta(dict(case, params=p)).astype(np.float32)
    d = -delta.astype(float)
    incontact = d > 0
    small = bool(((d > 0) & (d < 2e-7)).any())
    ctx.note_case(case, nontrivial=bool(incontact.any()), classes=[model + "_f32", "f32_depth_below_eps32" if small
                                                                   else "f32_depth_above_eps32"])
    md = nmodel.models_available[model]
    desc = {"model": model, "dtype": "float32"}
    kwargs = {k: p[k] for k in md.parameter_keys}
    din = delta.copy()
    with ctx.no_raise("model-raises", desc):
        got = np.asarray(md.module.model_func(din, **kwargs))
    ctx.check(np.array_equal(din, delta) and din.dtype == np.float32, "model-modifies-input", desc,
              "float32 delta array changed by model_func")
    ctx.check(got.shape == delta.shape, "model-shape", desc, f"shape {got.shape} != {delta.shape}")
    ref = refmodels.force_mp(model, delta.astype(float), p)
    tol = tolerance(model, p, np.where(incontact, d, 0.0)) / EPS * EPS32 + 1e-37
    err = np.array([abs(float(r - float(g))) for r, g in zip(ref, got)])
    ratio = float(np.max(err / tol))
    ctx.extra["max_f32_err_over_tol"] = max(ctx.extra.get("max_f32_err_over_tol", 0.0), ratio)
    if ratio > 1:
        i = int(np.argmax(err / tol))
        ctx.fail("formula-mismatch", desc,
                 f"depth={d[i]:.6e} got={float(got[i])!r} ref={float(ref[i])!r} err={err[i]:.3e} tol={tol[i]:.3e}")


def check_sphere(case, ctx):
    """(c) truncated series within 1e-4 of max force of the exact implicit solution, depths <= R"""
    from nanite import model as nmodel
    E, R, nu = case["E"], case["R"], case["nu"]
    fr = np.array(case["fracs"])
    dmaxfrac = case["dmax"]
    d = np.sort(np.concatenate([fr * dmaxfrac * R, [dmaxfrac * R]]))
    ctx.note_case(case, nontrivial=dmaxfrac > 0.2, classes=["sphere_exact"])
    exact = refmodels.sneddon_sphere_exact(d, E, R, nu)
    md = nmodel.models_available["sneddon_spher_approx"]
    got = md.module.model_func(-d, E=E, R=R, nu=nu, contact_point=0.0, baseline=0.0)
    fmax = exact.max()
    err = np.abs(got - exact).max()
    ctx.extra["max_sphere_rel_err"] = max(ctx.extra.get("max_sphere_rel_err", 0.0), float(err / fmax))
    ctx.check(err <= 1e-4 * fmax, "sphere-series-vs-exact", {"model": "sneddon_spher_approx"},
              f"E={E} R={R} nu={nu} dmax/R={dmaxfrac}: max|approx-exact|/Fmax={err / fmax:.3e}")


# constants the documented formula must state (several notations accepted: \frac{a}{b}, a/b, decimals)
def _fr(a, b):
    return r"(\\[td]?frac\{%s\}\{%s\}|%s\s*/\s*%s)" % (a, b, a, b)


DOC_PATTERNS = {
    "hertz_para": [_fr(4, 3), r"\^\{?(3/2|1\.5)\}?", r"\\sqrt\{R\}", r"1\s*-\s*\\nu\^\{?2\}?"],
    "hertz_cone": [r"(\\[td]?frac\{2\s*\\tan\s*\\alpha\}\{\\pi\}|2\s*\\tan\s*\\alpha\s*/\s*\\pi)",
                   r"\\delta\^\{?2\}?", r"1\s*-\s*\\nu\^\{?2\}?"],
    "hertz_pyr3s": [r"0\.8887\s*\\tan\s*\\alpha", r"\\delta\^\{?2\}?", r"1\s*-\s*\\nu\^\{?2\}?"],
    "sneddon_spher_approx": [_fr(4, 3), r"\^\{?(3/2|1\.5)\}?", r"-\s*" + _fr(1, 10), r"-\s*" + _fr(1, 840),
                             r"\+\s*" + _fr(11, 15120), r"\+\s*" + _fr(1357, 6652800)],
    "power_layer_clifford_2009": [r"P\s*=\s*2\.25", r"n\s*=\s*(1\.5|3/2)", r"m\s*=\s*(2/3|" + _fr(2, 3) + ")",
                                  r"B_\\mathrm\{S\}\s*=\s*0\.22", r"B_\\mathrm\{L\}\s*=\s*1\.92", _fr(4, 3)],
}


def check_docs(case, ctx):
    from nanite import model as nmodel
    for model, pats in DOC_PATTERNS.items():
        doc = nmodel.models_available[model].model_doc
        for pat in pats:
            ctx.check(re.search(pat, doc) is not None, "documented-constant", {"model": model, "pattern": pat},
                      f"docstring of {model} does not state the constant/term matching /{pat}/ that the "
                      f"reference (and the code) use")


def run(ctx):
    if ctx.shard == 0:
        ctx.direct(check_docs, "docs")
    ctx.hypothesis(st_case(), check_case, ctx.scale(16000, 800000), label="formula")
    ctx.hypothesis(st_case().map(lambda c: dict(c, f32=True)), check_case_f32, ctx.scale(4000, 200000),
                   label="formula-f32")
    sph = st.fixed_dictionaries({
        "E": st.floats(1, 6).map(lambda e: 10.0 ** e), "R": st.floats(-7, -4).map(lambda e: 10.0 ** e),
        "nu": st.floats(0.0, 0.5), "dmax": st.one_of(st.floats(0.01, 1.0), st.just(1.0)),
        "fracs": st.lists(st.floats(0.001, 1.0), min_size=3, max_size=20)})
    ctx.hypothesis(sph, check_sphere, ctx.scale(1600, 80000), label="sphere")


def replay(case, ctx):
    if "fracs" in case:
        check_sphere(case, ctx)
    elif case == "docs":
        check_docs(case, ctx)
    elif case.get("f32"):
        check_case_f32(case, ctx)
    else:
        check_case(case, ctx)
