"""C16 — rating containers round-trip and only ever grow.

Histories of saves (new curve / same curve again / same curve with a different
fit) and loads over one temporary rating container.  The model is an ordered
dict of entries keyed by (file hash, enum).  After every step the container is
dumped with h5py and loaded with ``load_hdf5`` and compared with the model.
For one save of a "fault" history *every* h5py write call of that save
(``Group.create_dataset``, ``Group.create_group`` incl. the creations done by
``require_group``, ``AttributeManager.__setitem__``) is made to raise in turn on
a copy of the container; previously stored ratings must stay readable and
unchanged.
"""
import contextlib
import copy
import hashlib
import itertools
import os
import pathlib
import shutil
import types

import numpy as np
from hypothesis import strategies as st

from vlib import runner, synth

PROPERTY = "C16"
LEVEL = "fault_enumeration"
SHARDS = {"quick": 8, "thorough": 16}
RULE = ("Hypothesis draws a history: 1-3 measurement files (synthetic afmformats-HDF5 files with 1-3 curves of "
        "80-320 or 600-660 points per segment, with/without innate tip position; recorded JPK single curves and "
        "maps), a pool of 2-3 fit settings that differ in one or two aspects (model, range, range type, weight_cp, "
        "preprocessing incl. none, initial parameters, method, gcf_k, optimal-fit search), and 2-8 ops "
        "(save next unstored curve / addressed curve / same again with other user fields / same curve other fit / load via load_hdf5(meta_only), "
        "load(dir), RateManager). In 'fault' histories one save is additionally replayed on copies of the "
        "container with the n-th h5py write call raising, for every n of that save. A few fixed histories are "
        "always run. non-trivial = at least two saves reached the library and at least one of them hit a container "
        "that already held an entry; distinct = distinct history record")
ASSUMPTIONS = [
    "a 'different fit' must be refused only when the fit column differs materially from the stored one (NaN "
    "pattern differs or max abs difference > 1e-3 of the stored fit amplitude); a bit-identical fit column must be "
    "accepted; anything in between (e.g. another weight_cp on noise-free data) may go either way but must then "
    "behave exactly like a refusal or like a re-save",
    "'equal fit settings and parameters' = equal values for the FP_DEFAULT keys and params_fitted; numpy scalar vs "
    "Python scalar and tuple vs list are the same value, [''] vs [] is not; result keys (chi_sqr, hash, xmin ...) "
    "are compared but only counted (classes.result-key-differs), not asserted",
    "user names/comments are arbitrary unicode without NUL and surrogates (a Tk entry cannot produce those); "
    "ratings are ints in -1..10 or a few floats",
    "an injected failure is an exception raised *instead of* the n-th write call (the h5py.File context manager "
    "then closes the file); a process kill / torn HDF5 file is not simulated",
    "after a failed save nothing is asserted about the curve whose save failed, except for a failed re-save where "
    "each user field must be the old or the new value; later ops on a half-written curve are skipped",
    "with no previously stored rating a failed save cannot make anything unreadable (vacuous, only counted)",
    "curves whose fit_model() call raises are not 'fitted curves'; the op is skipped and counted",
    "fit settings use x_axis='tip position' (the only abscissa the rating GUI/CLI profile can produce)",
]

RECORDED = {
    "fmt-jpk-fd_spot3-0192.jpk-force": 1,
    "fmt-jpk-fd_map2x2_extracted.jpk-force-map": 4,
    "fmt-jpk-fd_map-data-reference-points.jpk-force-map": 3,
    "fmt-jpk-fd_map_bad_2013-05-27_2.jpk-force-map": 1,
    "fmt-jpk-fd_single_tilted-baseline-shift-adyp_2023-06-26.jpk-force": 1,
}
COLUMNS = ["force", "tip position", "segment", "fit", "fit residuals", "fit range"]
STD = ["compute_tip_position", "correct_force_offset", "correct_tip_offset"]
PREPROC = {
    "std": (STD, {}),
    "none": ([], {}),
    "tip_only": (["compute_tip_position"], {}),
    "slope": (STD + ["correct_force_slope"],
              {"correct_force_slope": {"region": "baseline", "strategy": "shift"}}),
    "split": (STD + ["correct_split_approach_retract"], {}),
    "smooth": (STD + ["smooth_height"], {}),
    "poc": (STD, {"correct_tip_offset": {"method": "fit_constant_line"}}),
}
RANGES = {
    "full": [0, 0],
    "mid": [-5e-7, 1e-6],
    "wide": [-2e-7, 2.5e-6],
    "left_inf": ["-Infinity", 5e-7],
    "right_inf": [-3e-7, "Infinity"],
    "outside": [4e-3, 5e-3],     # no sample inside: the fit is unsuccessful, fit column all NaN
}
ASPECTS = {
    "model": ["hertz_para", "hertz_cone", "hertz_pyr3s", "sneddon_spher_approx"],
    "preproc": sorted(PREPROC),
    "range": sorted(RANGES),
    "range_type": ["absolute", "relative cp"],
    "range_form": ["list", "tuple", "numpy"],
    "weight_cp": [1e-6, 0, False, 3e-7, 2e-6],
    "params": ["default", "baseline_vary", "R_half", "E_bounds", "nu_expr"],
    "method": ["leastsq", "nelder"],
    "method_kws": ["none", "tol"],
    "gcf_k": [1.0, 0.5],
    "edelta": [False, True],
    "segment": [0, "approach"],
}
BASE_SPEC = {"model": "hertz_para", "preproc": "std", "range": "full", "range_type": "absolute",
             "range_form": "list", "weight_cp": 1e-6, "params": "default", "method": "leastsq",
             "method_kws": "none", "gcf_k": 1.0, "edelta": False, "segment": 0}
# user-visible changes that the GUI can produce by editing the profile between two sessions
MAIN_ASPECTS = ["model", "range", "weight_cp", "preproc", "params", "range_type"]


class InjectedFault(OSError):
    """raised instead of the n-th h5py write call"""


# --------------------------------------------------------------------------
# strategies

def st_text():
    alphabet = st.characters(blacklist_categories=["Cs"], blacklist_characters="\x00")
    return st.one_of(
        st.sampled_from(["", "ok", "this is a comment", "Zelle 3 – gut ✓", "日本語",
                         "naïve µm", " leading and trailing ", "a,b;c", "\U0001f52c tip"]),
        st.text(alphabet=alphabet, max_size=24))


def st_user():
    return st.fixed_dictionaries({
        "name": st.one_of(st.sampled_from(["hans", "eve", "Jürgen", ""]), st_text()),
        "rating": st.one_of(st.integers(-1, 10), st.integers(-1, 10), st.sampled_from([2.5, 7.25, 0.0])),
        "comment": st_text()})


@st.composite
def st_spec(draw):
    spec = dict(BASE_SPEC)
    for key in draw(st.lists(st.sampled_from(sorted(ASPECTS)), max_size=4)):
        spec[key] = draw(st.sampled_from(ASPECTS[key]))
    return spec


@st.composite
def st_variant(draw, base):
    spec = dict(base)
    keys = [draw(st.sampled_from(MAIN_ASPECTS))]
    if draw(st.integers(0, 3)) == 0:
        keys.append(draw(st.sampled_from(sorted(ASPECTS))))
    for key in keys:
        spec[key] = draw(st.sampled_from([v for v in ASPECTS[key] if not same_value(v, base[key])]))
    return spec


def same_value(a, b):
    return type(a) is type(b) and a == b


@st.composite
def st_curve(draw):
    c = draw(synth.st_curve(st, models=["hertz_para", "hertz_cone"],
                            noise=st.sampled_from([0.0, 1e-3, 1e-2]), n_range=(80, 320), max_lag=3,
                            tilt=True, sampling=("linear", "jitter"), wide=False))
    if draw(st.integers(0, 5)) == 0:
        # the size criterion of feat_bin_size needs >= 600 points per segment
        c["n_app"] = draw(st.integers(598, 660))
        c["n_ret"] = draw(st.integers(598, 660))
    return c


@st.composite
def st_file(draw):
    if draw(st.integers(0, 9)) < 6:
        return {"kind": "synth", "curves": draw(st.lists(st_curve(), min_size=1, max_size=3))}
    return {"kind": "recorded", "name": draw(st.sampled_from(sorted(RECORDED)))}


def st_save():
    return st.fixed_dictionaries({
        "op": st.just("save"), "mode": st.sampled_from(["new", "new", "any", "again", "other", "other"]),
        "file": st.integers(0, 2), "enum": st.integers(0, 3), "fit": st.integers(0, 2),
        "pick": st.integers(0, 7), "user": st_user(),
        "keep": st.sampled_from([None, None, "rating+name", None, "all", None])})


def st_load():
    return st.fixed_dictionaries({"op": st.just("load"), "how": st.sampled_from(["manager", "dir", "meta"])})


def st_side():
    """a second container that holds one of the stored curves with ANOTHER fit is written and loaded in between"""
    return st.fixed_dictionaries({"op": st.just("side"), "pick": st.integers(0, 7), "fit": st.integers(0, 2)})


@st.composite
def st_history(draw, with_fault):
    files = draw(st.lists(st_file(), min_size=1, max_size=3))
    base = draw(st_spec())
    fits = [base]
    for _ in range(draw(st.integers(1, 2))):
        fits.append(draw(st_variant(base)))
    ops = draw(st.lists(st.one_of(st_save(), st_save(), st_save(), st_load(), st_side()), min_size=2, max_size=8))
    if with_fault:
        first = dict(draw(st_save()), mode="new")
        tail = draw(st.lists(st.one_of(st_save(), st_load()), max_size=2))
        faulty = dict(draw(st_save()), fault={"keep": draw(st.integers(0, 60))})
        faulty["mode"] = draw(st.sampled_from(["new", "new", "new", "again"]))
        ops = [first] + ops[:draw(st.integers(0, 2))] + [faulty] + tail
    return {"files": files, "fits": fits, "ops": ops}


def _curve(**kw):
    return synth.base_case(**kw)


def fixed_histories():
    """hand-written histories that are run at every seed (one per shard slot)"""
    u = lambda n, r, c: {"name": n, "rating": r, "comment": c}  # noqa: E731

    def save(mode, f=0, e=0, fit=0, pick=0, user=None, **kw):
        return dict({"op": "save", "mode": mode, "file": f, "enum": e, "fit": fit, "pick": pick,
                     "user": user or u("hans", 5, "c")}, **kw)
    two = {"kind": "synth", "curves": [_curve(n_app=240, n_ret=200, noise=2e-3, noise_seed=1),
                                       _curve(n_app=200, n_ret=260, noise=1e-2, noise_seed=2,
                                              params={"E": 1.2e3})]}
    tip = {"kind": "synth", "curves": [_curve(n_app=620, n_ret=610, noise=1e-3, noise_seed=3, with_tip=True),
                                       _curve(n_app=150, n_ret=150, noise=0.0, with_tip=True)]}
    spot = {"kind": "recorded", "name": "fmt-jpk-fd_spot3-0192.jpk-force"}
    m2x2 = {"kind": "recorded", "name": "fmt-jpk-fd_map2x2_extracted.jpk-force-map"}
    refp = {"kind": "recorded", "name": "fmt-jpk-fd_map-data-reference-points.jpk-force-map"}
    b = BASE_SPEC
    load = lambda how: {"op": "load", "how": how}  # noqa: E731
    hs = [
        # re-save, then a different model on the same range (fit differs only in value)
        {"files": [two], "fits": [b, dict(b, model="hertz_cone"), dict(b, weight_cp=0)],
         "ops": [save("new", 0, 0), save("new", 0, 1, user=u("eve", 7, "")),
                 save("again", pick=0, user=u("Jürgen", 1, "Zelle ✓")),
                 save("other", pick=0, user=u("eve", 9, "other model")), load("manager"),
                 save("other", pick=1, user=u("eve", 0, "again other")), load("meta")]},
        # no preprocessing on curves with innate tip position; different range
        {"files": [tip, spot], "fits": [dict(b, preproc="none"), dict(b, preproc="none", range="mid")],
         "ops": [save("new", 0, 0, 0), save("new", 0, 1, 0), save("new", 1, 0, 0),
                 save("other", pick=0, user=u("eve", 2, "range")), load("dir"),
                 save("again", pick=2, user=u("", -1, ""))]},
        # fault enumeration: new curve from a new file
        {"files": [two, spot], "fits": [b, dict(b, range="mid")],
         "ops": [save("new", 0, 0), save("new", 0, 1), save("new", 1, 0, fault={"keep": 0}),
                 save("again", pick=0, user=u("x", 3, "after"))]},
        # fault enumeration: new curve from an already embedded file, continue behind a half-written group
        {"files": [m2x2], "fits": [dict(b, preproc="slope"), b],
         "ops": [save("new", 0, 0), save("new", 0, 1, fault={"keep": 27}), save("new", 0, 2),
                 save("again", pick=0, user=u("eve", 8, "still there")), load("manager")]},
        # fault enumeration: re-save
        {"files": [refp, tip], "fits": [dict(b, params="baseline_vary", weight_cp=False), b],
         "ops": [save("new", 0, 0), save("new", 1, 0, 0), save("again", pick=0, user=u("eve", 1, "日本"),
                                                             fault={"keep": 2}),
                 save("new", 0, 2), load("meta")]},
        # fault enumeration: half-written data set (keep call 2 = the 'path' attribute), then use that file
        {"files": [two, tip], "fits": [b, dict(b, model="hertz_pyr3s")],
         "ops": [save("new", 0, 0), save("new", 1, 0, fault={"keep": 2}), save("new", 1, 1),
                 save("other", pick=0, user=u("eve", 4, "pyr"))]},
        {"files": [spot, two], "fits": [dict(b, range="mid", range_form="numpy"),
                                        dict(b, range="mid", range_type="relative cp")],
         "ops": [save("new", 0, 0, 0), save("new", 1, 0, 1), save("other", pick=0), save("other", pick=1),
                 load("manager")]},
        {"files": [two], "fits": [dict(b, edelta=True, range="mid", method_kws="tol"), dict(b, range="mid")],
         "ops": [save("new", 0, 0, 0), save("new", 0, 1, 1), save("other", pick=0), save("again", pick=1)]},
    ]
    return hs


# --------------------------------------------------------------------------
# helpers: files, fits, snapshots

_counter = itertools.count()


def sha(b):
    return hashlib.sha256(b).hexdigest()


class Env:
    def __init__(self, case, ctx):
        self.ctx = ctx
        self.root = pathlib.Path(ctx.workdir) / f"h{os.getpid()}_{next(_counter)}"
        self.root.mkdir(parents=True)
        (self.root / "cont").mkdir()
        self.container = self.root / "cont" / "rate.h5"
        self.files = []
        for i, f in enumerate(case["files"]):
            if f["kind"] == "synth":
                path = synth.write_h5(f["curves"], self.root / f"meas{i}.h5")
                ncur = len(f["curves"])
            else:
                path = runner.REPO / "tests" / "data" / f["name"]
                ncur = RECORDED[f["name"]]
            blob = path.read_bytes()
            import nanite
            enums = [int(i.enum) for i in nanite.IndentationGroup(path)]
            if len(enums) != ncur or len(set(enums)) != ncur:
                raise runner.HarnessError(f"{path} holds curves {enums}, expected {ncur} distinct ones")
            self.files.append({"path": path, "n": ncur, "hash": sha(blob)[:6], "sha": sha(blob), "enums": enums,
                               "label": "synth" if f["kind"] == "synth" else f["name"][len("fmt-jpk-fd_"):].split(".")[0][:28]})
        self.fits = case["fits"]
        self.fitted = {}
        self.scratch_n = itertools.count()

    def close(self):
        shutil.rmtree(self.root, ignore_errors=True)

    def scratch(self, blob):
        d = self.root / f"scratch{next(self.scratch_n)}"
        d.mkdir()
        p = d / "rate.h5"
        if blob is not None:
            p.write_bytes(blob)
        return p

    def fitted_curve(self, fidx, eidx, sidx):
        """fresh curve object fitted with fit spec ``sidx`` (cached per history); None if the fit raised"""
        key = (fidx, eidx, sidx)
        if key not in self.fitted:
            self.fitted[key] = fit_curve(self.files[fidx], eidx, self.fits[sidx], self.ctx)
        return self.fitted[key]


def unjson(v):
    return runner.unjson_float(v)


def edit_params(p, how):
    if how == "baseline_vary":
        p["baseline"].set(vary=True)
        p["contact_point"].set(vary=True)
    elif how == "R_half" and "R" in p:
        p["R"].set(value=p["R"].value / 2)
    elif how == "E_bounds" and "E" in p:
        p["E"].set(value=800.0, min=10.0, max=5e5)
    elif how == "nu_expr" and "nu" in p:
        p["nu"].set(expr="0.25 + 0.25")
    return p


def fit_curve(finfo, eidx, spec, ctx):
    import nanite
    grp = nanite.IndentationGroup(finfo["path"])
    if len(grp) != finfo["n"]:
        raise runner.HarnessError(f"{finfo['path']} holds {len(grp)} curves, table says {finfo['n']}")
    idnt = grp[eidx]
    pre, opts = PREPROC[spec["preproc"]]
    if "tip position" not in idnt.columns_innate and "compute_tip_position" not in pre:
        pre = ["compute_tip_position"] + list(pre)
    pre, opts = list(pre), copy.deepcopy(opts)
    rx = [unjson(v) for v in RANGES[spec["range"]]]
    if spec["range_form"] == "tuple":
        rx = tuple(rx)
    elif spec["range_form"] == "numpy":
        rx = [np.float64(v) for v in rx]
    edelta = bool(spec["edelta"]) and spec["model"] != "power_layer_clifford_2009"
    kw = dict(model_key=spec["model"], preprocessing=pre, preprocessing_options=opts,
              range_type="absolute" if edelta else spec["range_type"], range_x=rx,
              weight_cp=spec["weight_cp"], segment=spec["segment"], method=spec["method"],
              method_kws={} if spec["method_kws"] == "none" else (
                  {"ftol": 1e-10, "xtol": 1e-10} if spec["method"] == "leastsq" else {"tol": 1e-9}),
              gcf_k=spec["gcf_k"], optimal_fit_edelta=edelta, optimal_fit_num_samples=10)
    try:
        idnt.apply_preprocessing(pre, options=opts)
        if spec["params"] != "default":
            p = idnt.get_initial_fit_parameters(model_key=spec["model"])
            kw["params_initial"] = edit_params(p, spec["params"])
        idnt.fit_model(**kw)
        ok = all(c in idnt for c in COLUMNS) and "success" in idnt.fit_properties
    except (KeyboardInterrupt, SystemExit, MemoryError, runner.HarnessError):
        raise
    except BaseException as exc:  # noqa - not a fitted curve: outside the property
        ctx.event("fit-raised:" + type(exc).__name__)
        return None
    if not ok:
        ctx.event("fit-incomplete")
        return None
    return idnt


def norm_value(v):
    """plain-Python value of a fit property for comparison by value"""
    import lmfit
    if isinstance(v, lmfit.Parameters):
        return {"__params__": {k: (norm_value(p.value), norm_value(p.min), norm_value(p.max),
                                   bool(p.vary), p.expr) for k, p in v.items()}}
    if isinstance(v, dict):
        return {str(k): norm_value(x) for k, x in v.items()}
    if isinstance(v, (list, tuple)):
        return [norm_value(x) for x in v]
    if isinstance(v, np.ndarray):
        return [norm_value(x) for x in v.tolist()] if v.ndim else norm_value(v.item())
    if isinstance(v, (bool, np.bool_)):
        return bool(v)
    if isinstance(v, (int, np.integer)):
        return int(v)
    if isinstance(v, (float, np.floating)):
        return float(v)
    if isinstance(v, bytes):
        return v.decode("utf-8", "replace")
    return v


def value_equal(a, b):
    """equality of normalised values: numbers by value (False == 0 == 0.0, NaN == NaN), containers element-wise"""
    if isinstance(a, dict) or isinstance(b, dict):
        return (isinstance(a, dict) and isinstance(b, dict) and sorted(a) == sorted(b)
                and all(value_equal(a[k], b[k]) for k in a))
    if isinstance(a, (list, tuple)) or isinstance(b, (list, tuple)):
        return (isinstance(a, (list, tuple)) and isinstance(b, (list, tuple)) and len(a) == len(b)
                and all(value_equal(x, y) for x, y in zip(a, b)))
    num = (bool, int, float)
    if isinstance(a, num) and isinstance(b, num):
        if isinstance(a, float) and isinstance(b, float) and a != a and b != b:
            return True
        return a == b
    if isinstance(a, str) != isinstance(b, str):
        return False
    return a == b


def identical(a, b):
    """bit-identical arrays: same dtype, shape, NaN positions, and bytes elsewhere"""
    a, b = np.asarray(a), np.asarray(b)
    if a.dtype != b.dtype or a.shape != b.shape:
        return False
    if a.dtype.kind == "f":
        na, nb = np.isnan(a), np.isnan(b)
        if not np.array_equal(na, nb):
            return False
        return a[~na].tobytes() == b[~nb].tobytes()
    return a.tobytes() == b.tobytes()


def describe_diff(a, b):
    a, b = np.asarray(a), np.asarray(b)
    if a.dtype != b.dtype or a.shape != b.shape:
        return f"dtype/shape {a.dtype}{a.shape} vs {b.dtype}{b.shape}"
    with np.errstate(all="ignore"):
        bad = ~((a == b) | ((a != a) & (b != b)))
    i = int(np.argmax(bad)) if bad.any() else -1
    return f"{int(bad.sum())} of {a.size} samples differ, first at {i}: {a.flat[i]!r} vs {b.flat[i]!r}"


def features(idnt):
    from nanite.rate.rater import IndentationRater
    try:
        return np.array(IndentationRater.compute_features(idnt), dtype=float)
    except (KeyboardInterrupt, SystemExit, MemoryError):
        raise
    except BaseException as exc:  # noqa
        return "raised " + type(exc).__name__


def snapshot(idnt):
    from nanite.fit import FP_DEFAULT
    fp = {k: norm_value(v) for k, v in idnt.fit_properties.items()}
    return {"columns": {c: np.array(idnt[c], copy=True) for c in COLUMNS},
            "settings": {k: v for k, v in fp.items() if k in FP_DEFAULT or k == "params_fitted"},
            "results": {k: v for k, v in fp.items() if k not in FP_DEFAULT and k != "params_fitted"},
            "features": features(idnt)}


# --------------------------------------------------------------------------
# helpers: container dump, fault injection

def dump(path):
    """flat {node path: description}; dataset bytes as digest, attributes as (type, shape, bytes)"""
    import h5py
    out = {}

    def attrs_of(obj):
        d = {}
        for k in obj.attrs:
            v = obj.attrs[k]
            if isinstance(v, str):
                d[k] = ("str", v)
            else:
                a = np.asarray(v)
                d[k] = (a.dtype.str, list(a.shape), a.tobytes().hex() if a.dtype.kind != "O" else repr(v))
        return d

    with h5py.File(path, "r") as h5:
        out["/"] = {"kind": "group", "attrs": attrs_of(h5)}

        def visit(name, obj):
            if isinstance(obj, h5py.Dataset):
                arr = obj[...]
                out["/" + name] = {"kind": "dataset", "dtype": str(obj.dtype), "shape": list(obj.shape),
                                   "sha": sha(np.ascontiguousarray(arr).tobytes()), "attrs": attrs_of(obj)}
            else:
                out["/" + name] = {"kind": "group", "attrs": attrs_of(obj)}
        h5.visititems(visit)
    return out


@contextlib.contextmanager
def h5_write_hook(fault_at, log):
    """count (and optionally fail) every write call made through h5py's high-level API: creation of data sets
    and groups (require_group / require_dataset create through these), attribute writes, links and deletions"""
    import h5py._hl.attrs as ha
    import h5py._hl.dataset as hd
    import h5py._hl.group as hg
    G, A, D = hg.Group, ha.AttributeManager, hd.Dataset
    saved = {(c, n): getattr(c, n) for c, n in
             [(G, "create_dataset"), (G, "create_group"), (G, "__setitem__"), (G, "__delitem__"),
              (G, "copy"), (G, "move"),
              (A, "__setitem__"), (A, "create"), (A, "modify"), (A, "__delitem__"),
              (D, "__setitem__"), (D, "resize"), (D, "write_direct")]}
    depth = [0]

    def where(obj):
        try:
            parts = obj.name.strip("/").split("/")
        except Exception:  # noqa
            parts = []
        return parts[0] if parts and parts[0] else "root"

    def tick(label):
        log.append(label)
        if len(log) == fault_at:
            raise InjectedFault(f"injected failure at write call {fault_at} ({label})")

    def label_group(kind, self, name):
        top = where(self)
        if kind == "create_dataset":
            return "create_dataset:" + (str(name) if top == "analysis" else top + "/<hash>")
        if kind == "create_group":
            return "create_group:" + (str(name) if top == "root" else top + "/<curve>")
        return f"{kind}:{top}/<name>"

    def wrap(cls, meth, labeller):
        orig = saved[(cls, meth)]

        def wrapper(self, name, *a, **k):
            if depth[0] == 0:
                tick(labeller(self, name))
            depth[0] += 1
            try:
                return orig(self, name, *a, **k)
            finally:
                depth[0] -= 1
        return wrapper

    for (cls, meth) in saved:
        if cls is G:
            lab = (lambda m: lambda self, name: label_group(m.strip("_"), self, name))(meth)
        elif cls is D:
            lab = (lambda m: lambda self, name: "dataset-" + m.strip("_"))(meth)
        else:
            lab = (lambda m: lambda self, name: ("attr:" if m in ("__setitem__", "create") else
                                                 "attr-" + m.strip("_") + ":") + str(name))(meth)
        setattr(cls, meth, wrap(cls, meth, lab))
    try:
        yield
    finally:
        for (cls, meth), orig in saved.items():
            setattr(cls, meth, orig)


def do_save(path, idnt, user, fault_at=None):
    """returns (outcome, write-call labels, exception); outcome in ok / refused / fault / raised"""
    from nanite.rate import io as rio
    log = []
    try:
        with h5_write_hook(fault_at, log):
            rio.save_hdf5(h5path=path, indent=idnt, user_rate=user["rating"], user_name=user["name"],
                          user_comment=user["comment"], h5mode="a")
    except InjectedFault as exc:
        return "fault", log, exc
    except ValueError as exc:
        if "different fit" in str(exc):
            return "refused", log, exc
        return "raised", log, exc
    except (KeyboardInterrupt, SystemExit, MemoryError, runner.HarnessError):
        raise
    except BaseException as exc:  # noqa
        return "raised", log, exc
    return "ok", log, None


# --------------------------------------------------------------------------
# the oracle

class Entry:
    def __init__(self, key, fidx, eidx, sidx, idnt, user):
        self.key = key
        self.idd = f"{key[0]}_{key[1]}"
        self.fidx, self.eidx, self.sidx = fidx, eidx, sidx
        self.idnt = idnt
        self.snap = snapshot(idnt)
        self.user = dict(user)


def fit_relation(stored, new):
    """identical / material / ambiguous relation of a new fit column to the stored one"""
    if identical(stored, new):
        return "identical"
    fa, fb = np.isfinite(stored), np.isfinite(new)
    if stored.shape != new.shape or not np.array_equal(fa, fb) or \
            not np.array_equal(np.isnan(stored), np.isnan(new)):
        return "material"
    if not fa.any():
        return "ambiguous"
    amp = float(np.max(np.abs(stored[fa])))
    if float(np.max(np.abs(stored[fa] - new[fa]))) > 1e-3 * amp:
        return "material"
    return "ambiguous"


def spec_change(a, b):
    keys = [k for k in sorted(ASPECTS) if not same_value(a[k], b[k])]
    return "+".join(keys) if keys else "none"


def loaded_index(ratings):
    out = {}
    for r in ratings:
        ds = r.get("data_set")
        h = ds.path.name.split("_")[0] if ds is not None else None
        out.setdefault((h, int(r["enum"])), []).append(r)
    return out


def compare_entry(ctx, env, e, r, desc, allow_user=None):
    """stored entry ``e`` (model) against loaded rating dict ``r``; the descriptor names the step and the
    file / preprocessing of the *entry*"""
    desc = dict(desc, file=env.files[e.fidx]["label"], preproc=env.fits[e.sidx]["preproc"])
    ds = r["data_set"]
    for col in COLUMNS:
        d = dict(desc, column=col)
        try:
            got = ds[col]
        except (KeyboardInterrupt, SystemExit, MemoryError):
            raise
        except BaseException as exc:  # noqa
            ctx.fail("column-differs", d, f"{e.idd}: loaded curve has no usable '{col}': {exc!r}")
            continue
        ctx.check(identical(got, e.snap["columns"][col]), "column-differs", d,
                  f"{e.idd} '{col}': " + describe_diff(e.snap["columns"][col], got))
    fpl = {k: norm_value(v) for k, v in ds.fit_properties.items()}
    for k, want in e.snap["settings"].items():
        d = dict(desc, key=k)
        if not ctx.check(k in fpl, "setting-differs", d, f"{e.idd}: fit property '{k}' missing after load"):
            continue
        ctx.check(value_equal(want, fpl[k]), "setting-differs", d,
                  f"{e.idd}: fit property '{k}' saved as {want!r}, loaded as {fpl[k]!r}"[:600])
    for k, want in e.snap["results"].items():
        if k not in fpl or not value_equal(want, fpl[k]):
            ctx.event("result-key-differs:" + k)
    for k, lk in (("name", "name"), ("rating", "rating"), ("comment", "comment")):
        got = norm_value(r[lk])
        okvals = [e.user[k]] + ([allow_user[k]] if allow_user else [])
        ctx.check(any(value_equal(norm_value(w), got) and isinstance(w, str) == isinstance(got, str)
                      for w in okvals), "user-field-differs", dict(desc, field=k),
                  f"{e.idd}: user {k} stored {okvals!r}, loaded {got!r}")
    want = e.snap["features"]
    if isinstance(want, str):
        ctx.event("features-of-original-" + want.replace(" ", "-"))
    else:
        got = features(ds)
        ctx.check(not isinstance(got, str) and np.array_equal(want, got, equal_nan=True), "features-differ", desc,
                  f"{e.idd}: features of original {want.tolist()} vs loaded "
                  f"{got if isinstance(got, str) else got.tolist()}")


def check_rated(ctx, env, path, model, tainted, desc):
    from nanite.rate import io as rio
    for fidx, f in enumerate(env.files):
        for eidx in range(f["n"]):
            key = (f["hash"], f["enums"][eidx])
            if key in tainted:
                continue
            e = model.get(key)
            probe = e.idnt if e is not None else types.SimpleNamespace(path=f["path"], enum=key[1])
            with ctx.no_raise("hdf5_rated-raises", desc):
                rated, rating, comment = rio.hdf5_rated(path, probe)
                if e is None:
                    ctx.check(not rated, "hdf5_rated-wrong", dict(desc, stored=False),
                              f"curve {key} was never stored but is reported as rated ({rating!r}, {comment!r})")
                else:
                    ctx.check(bool(rated) and value_equal(norm_value(rating), norm_value(e.user["rating"]))
                              and comment == e.user["comment"], "hdf5_rated-wrong", dict(desc, stored=True),
                              f"{e.idd}: stored ({e.user['rating']!r}, {e.user['comment']!r}), "
                              f"hdf5_rated says ({rated!r}, {rating!r}, {comment!r})")


def state_flags(env, model, spec=None):
    """categorical facts about the container content that belong into every descriptor"""
    forms = [env.fits[e.sidx]["range_form"] for e in model.values()] + ([spec["range_form"]] if spec else [])
    return {"range_form": "numpy"} if "numpy" in forms else {}


def check_container(ctx, env, path, model, tainted, desc, relaxed=None, unreadable="load-raises", skip=()):
    """dump + load the container and compare every intact model entry; returns (dump, ratings)"""
    from nanite.rate import io as rio
    desc = dict(desc, **state_flags(env, model))
    try:
        dmp = dump(path)
    except (KeyboardInterrupt, SystemExit, MemoryError):
        raise
    except BaseException as exc:  # noqa
        ctx.fail("container-not-dumpable", desc, f"h5py cannot read the container: {exc!r}")
        return None, None
    ratings = None
    try:
        ratings = rio.load_hdf5(path)
    except (KeyboardInterrupt, SystemExit, MemoryError, runner.HarnessError):
        raise
    except BaseException as exc:  # noqa
        if model:
            ctx.fail(unreadable, dict(desc, exception=type(exc).__name__),
                     f"load_hdf5 raised {type(exc).__name__}: {str(exc)[:160]} with {len(model)} stored "
                     f"rating(s) {[e.idd for e in model.values()]}")
        else:
            ctx.event("load-raises-on-container-without-stored-rating")
        return dmp, None
    idx = loaded_index(ratings)
    for key, e in model.items():
        got = idx.get(key, [])
        if not ctx.check(len(got) == 1, "stored-entry-missing", desc,
                         f"{e.idd}: {len(got)} loaded ratings for this curve; loaded keys {sorted(idx)}"):
            continue
        compare_entry(ctx, env, e, got[0], desc, allow_user=(relaxed or {}).get(key))
        node = dmp.get("/data/" + key[0])
        f = env.files[e.fidx]
        # (two measurement files with the same content share one embedded copy)
        names = [g["path"].name for g in env.files if g["hash"] == key[0]]
        ctx.check(node is not None and node["sha"] == f["sha"] and
                  pathlib.Path(node["attrs"].get("path", ("str", ""))[1]).name in names,
                  "embedded-data-differs", desc, f"/data/{key[0]} is not the measurement file {names}")
    extra = [k for k in idx if k not in model and k not in tainted and k not in skip]
    ctx.check(not extra, "unexpected-entry", desc, f"loaded ratings for curves never stored: {extra}")
    check_rated(ctx, env, path, model, set(tainted) | set(skip), desc)
    return dmp, ratings


USER_ATTRS = ("nanite version", "h5py version")


def diff_dumps(before, after, allowed_prefixes=(), user_only=None):
    """list of differences outside the allowed node prefixes; for ``user_only`` (a group path) only the
    'user *' and version attributes of that group may differ"""
    out = []
    before = before or {}

    def allowed(p):
        return any(p == a or p.startswith(a + "/") for a in allowed_prefixes)

    for p in sorted(set(before) | set(after)):
        if allowed(p):
            continue
        a, b = before.get(p), after.get(p)
        if a is None and p in ("/", "/data", "/analysis"):
            continue
        if a is None or b is None:
            out.append(f"{p} {'appeared' if a is None else 'vanished'}")
            continue
        if p == user_only:
            sa = {k: v for k, v in a["attrs"].items() if not (k.startswith("user ") or k in USER_ATTRS)}
            sb = {k: v for k, v in b["attrs"].items() if not (k.startswith("user ") or k in USER_ATTRS)}
            if sa != sb:
                ks = [k for k in set(sa) | set(sb) if sa.get(k) != sb.get(k)]
                out.append(f"{p} attributes {sorted(ks)} changed")
            continue
        if a != b:
            what = [k for k in ("kind", "dtype", "shape", "sha") if a.get(k) != b.get(k)]
            what += ["attr " + k for k in set(a["attrs"]) | set(b["attrs"]) if a["attrs"].get(k) != b["attrs"].get(k)]
            out.append(f"{p} changed ({', '.join(sorted(what))})")
    return out


def run_history(case, ctx):
    stats = {"classes": [], "saves": 0, "onto": 0}
    env = Env(case, ctx)
    try:
        interpret(case, ctx, env, stats)
    finally:
        env.close()
        ctx.note_case(case, nontrivial=stats["saves"] >= 2 and stats["onto"] >= 1, classes=stats["classes"])


def interpret(case, ctx, env, stats):
    from nanite.rate import io as rio
    model = {}          # key -> Entry, insertion ordered
    tainted = set()     # analysis keys half-written by a failed save
    loose_data = set()  # data hashes first written by a failed save
    prev = None         # dump after the previous step
    nfits = len(env.fits)
    for step, op in enumerate(case["ops"]):
        if op["op"] == "load":
            stats["classes"].append("load-" + op["how"])
            if not env.container.exists():
                continue
            desc = dict({"step": "load", "how": op["how"]}, **state_flags(env, model))
            with ctx.no_raise("load-raises", desc):
                if op["how"] == "manager":
                    rm = rio.RateManager(env.container)
                    rs = rm.ratings
                    rates = rm.get_rates(which="user")
                    if not tainted:
                        ctx.check(sorted(map(float, rates)) == sorted(float(e.user["rating"]) for e in model.values()),
                                  "user-field-differs", dict(desc, field="get_rates"),
                                  f"get_rates {rates!r} vs stored {[e.user['rating'] for e in model.values()]}")
                elif op["how"] == "dir":
                    rs = rio.load(env.container.parent)
                else:
                    rs = rio.load_hdf5(env.container, meta_only=True)
                got = sorted(repr((int(r["enum"]), norm_value(r["name"]), float(r["rating"]),
                                   norm_value(r["comment"]))) for r in rs)
                want = sorted(repr((k[1], e.user["name"], float(e.user["rating"]), e.user["comment"]))
                              for k, e in model.items())
                if tainted:
                    ok = not (set(want) - set(got))
                else:
                    ok = got == want
                ctx.check(ok, "user-field-differs", dict(desc, field="all"), f"loaded {got} vs stored {want}")
            continue

        if op["op"] == "side":
            if not env.container.exists() or not model or tainted or nfits < 2:
                continue
            t = list(model.values())[op["pick"] % len(model)]
            sidx = (t.sidx + 1 + op["fit"] % (nfits - 1)) % nfits
            other = env.fitted_curve(t.fidx, t.eidx, sidx)
            if other is None:
                continue
            stats["classes"].append("side-container")
            desc = dict({"step": "side"}, **state_flags(env, model))
            first = None
            with ctx.no_raise("load-raises", desc):
                first = rio.load_hdf5(env.container)
            if first is None:
                continue
            held = [(r, snapshot(r["data_set"])) for r in first]
            side = env.scratch(None)
            user = {"rating": 3, "name": "side", "comment": "other analysis of the same curve"}
            outcome, _log, exc = do_save(side, other, user)
            if outcome != "ok":
                ctx.event("side-save-" + outcome)
                continue
            side_r = None
            with ctx.no_raise("load-raises", dict(desc, container="side")):
                side_r = rio.load_hdf5(side)
            if side_r is not None and ctx.check(len(side_r) == 1, "stored-entry-missing", dict(desc, container="side"),
                                                f"{len(side_r)} ratings loaded from a container with one entry"):
                compare_entry(ctx, env, Entry(t.key, t.fidx, t.eidx, sidx, other, user), side_r[0],
                              dict(desc, container="side"))
            # what an earlier load handed out is not changed by later loads
            for r, snap0 in held:
                snap1 = snapshot(r["data_set"])
                bad = [c for c in COLUMNS if not identical(snap0["columns"][c], snap1["columns"][c])]
                bad += [k for k in set(snap0["settings"]) | set(snap1["settings"])
                        if k not in snap0["settings"] or k not in snap1["settings"]
                        or not value_equal(snap0["settings"][k], snap1["settings"][k])]
                bad += ["results:" + k for k in set(snap0["results"]) ^ set(snap1["results"])]
                ctx.check(not bad, "loaded-curve-changed-by-later-load", desc,
                          f"curve {r['data_set'].path.name}/{r['enum']} loaded from the container changed in {bad} when "
                          f"another container with the same curve was loaded")
            # and the container itself still loads as stored
            check_container(ctx, env, env.container, model, tainted, desc)
            continue

        # ---- resolve the save op against the model (ops are total)
        mode = op["mode"]
        targets = list(model.values())
        if mode in ("again", "other") and targets:
            t = targets[op["pick"] % len(targets)]
            fidx, eidx = t.fidx, t.eidx
            sidx = t.sidx if mode == "again" else (t.sidx + 1 + (op["pick"] // len(targets)) % max(nfits - 1, 1)) % nfits
        else:
            fidx = op["file"] % len(env.files)
            eidx = op["enum"] % env.files[fidx]["n"]
            sidx = op["fit"] % nfits
            if mode == "new":
                # the next curve (cyclic order from the addressed one) that is not in the container yet
                allc = [(fi, ei) for fi, f in enumerate(env.files) for ei in range(f["n"])]
                start = allc.index((fidx, eidx))
                for fi, ei in allc[start:] + allc[:start]:
                    k = (env.files[fi]["hash"], env.files[fi]["enums"][ei])
                    if k not in model and k not in tainted:
                        fidx, eidx = fi, ei
                        break
        key = (env.files[fidx]["hash"], env.files[fidx]["enums"][eidx])
        if key in tainted:
            stats["classes"].append("skipped-half-written-curve")
            continue
        idnt = env.fitted_curve(fidx, eidx, sidx)
        if idnt is None:
            stats["classes"].append("skipped-fit-raised")
            continue
        if int(idnt.enum) != key[1]:
            raise runner.HarnessError(f"curve index {eidx} has enum {idnt.enum}, expected {key[1]}")
        stored = model.get(key)
        if stored is None:
            kind, rel = "new", None
        else:
            rel = fit_relation(stored.snap["columns"]["fit"], np.asarray(idnt["fit"]))
            kind = {"identical": "again", "material": "other", "ambiguous": "ambiguous"}[rel]
        change = spec_change(env.fits[stored.sidx], env.fits[sidx]) if stored is not None else "none"
        spec = env.fits[sidx]
        desc = {"step": kind, "file": env.files[fidx]["label"], "preproc": spec["preproc"]}
        desc.update(state_flags(env, model, spec))
        if kind in ("other", "ambiguous"):
            desc["change"] = change
        stats["classes"].append("save-" + kind)
        stats["classes"].append("fitted-" + ("ok" if idnt.fit_properties["success"] else "unsuccessful"))
        stats["saves"] += 1
        if model:
            stats["onto"] += 1
        user = dict(op["user"])
        if stored is not None and op.get("keep"):
            # a re-save that changes only part of the user fields (comment edited / nothing changed at all)
            user["rating"], user["name"] = stored.user["rating"], stored.user["name"]
            if op["keep"] == "all":
                user["comment"] = stored.user["comment"]
            stats["classes"].append("resave-keeps-" + op["keep"])
        pre_blob = env.container.read_bytes() if env.container.exists() else None
        dkey = "/data/" + key[0]
        gkey = "/analysis/" + f"{key[0]}_{key[1]}"

        # ---- fault enumeration on copies of the container
        keep = None
        if op.get("fault") is not None and kind in ("new", "again"):
            keep = fault_enumeration(ctx, env, model, tainted, idnt, user, stored, kind, desc, pre_blob, prev,
                                     dkey, gkey, op["fault"]["keep"], stats, key[0] in loose_data)
        if keep is not None:
            # continue the history behind the kept failed save
            blob, dmp, ratings = keep
            env.container.write_bytes(blob)
            if kind == "new":
                if gkey in dmp:
                    tainted.add(key)
                if dkey in dmp and (prev is None or dkey not in prev):
                    loose_data.add(key[0])
            else:
                got = loaded_index(ratings)[key][0]
                stored.user = {"name": norm_value(got["name"]), "rating": norm_value(got["rating"]),
                               "comment": norm_value(got["comment"])}
            prev = dmp
            stats["classes"].append("continued-behind-failed-save")
            continue

        # ---- the save itself
        outcome, calls, exc = do_save(env.container, idnt, user)
        if outcome == "raised":
            ctx.fail("save-raises", dict(desc, exception=type(exc).__name__),
                     f"save_hdf5 raised {type(exc).__name__}: {str(exc)[:200]}")
            return
        after_model = dict(model)
        if kind == "new":
            ctx.check(outcome == "ok", "save-raises", dict(desc, exception="ValueError"),
                      f"first save of {key} refused: {exc}")
            after_model[key] = Entry(key, fidx, eidx, sidx, idnt, user)
        elif kind == "again":
            ctx.check(outcome == "ok", "same-fit-refused", desc, f"re-save of {stored.idd} with the same fit: {exc}")
            stored.user = dict(user)
        elif kind == "other":
            ctx.check(outcome == "refused", "different-fit-not-refused", desc,
                      f"{stored.idd} stored with fit {compact(env.fits[stored.sidx])}; save_hdf5 accepted the curve "
                      f"fitted with {compact(spec)} (fit column: {describe_diff(stored.snap['columns']['fit'], idnt['fit'])})")
            if outcome == "ok":
                # known finding path: the container keeps the old fit with the new user fields
                stored.user = dict(user)
        else:
            stats["classes"].append("ambiguous-" + outcome)
            if outcome == "ok":
                stored.user = dict(user)
        model = after_model
        dmp, _ = check_container(ctx, env, env.container, model, tainted, desc)
        if dmp is None:
            return
        if outcome == "refused":
            diffs = diff_dumps(prev, dmp)
            ctx.check(not diffs, "refused-save-changed-file", desc, "; ".join(diffs)[:500])
        elif kind == "new":
            allowed = [gkey] + ([dkey] if (prev is None or dkey not in prev or key[0] in loose_data) else [])
            diffs = diff_dumps(prev, dmp, allowed_prefixes=allowed)
            ctx.check(not diffs, "other-entries-altered", desc, "; ".join(diffs)[:500])
            loose_data.discard(key[0])
        else:
            diffs = diff_dumps(prev, dmp, user_only=gkey)
            ctx.check(not diffs, "resave-changed-more-than-user-fields", desc, "; ".join(diffs)[:500])
        prev = dmp


def compact(spec):
    return {k: v for k, v in spec.items() if not same_value(v, BASE_SPEC[k])} or "defaults"


def fault_enumeration(ctx, env, model, tainted, idnt, user, stored, kind, desc, pre_blob, prev, dkey, gkey,
                      keep_raw, stats, data_loose):
    """fail every write call of this save in turn (on copies); returns the kept state or None"""
    outcome, calls, exc = do_save(env.scratch(pre_blob), idnt, user)
    if outcome != "ok":
        return None    # judged by the un-faulted save that follows
    nwrites = len(calls)
    stats["classes"].append("fault-enumerated-save-" + kind)
    ctx.event("write-calls-failed", nwrites)
    ctx.extra["max_write_calls_in_one_save"] = max(ctx.extra.get("max_write_calls_in_one_save", 0), nwrites)
    keep_n = keep_raw % (nwrites + 1)
    kept = None
    others = {k: e for k, e in model.items() if e is not stored}
    target = (gkey.split("/")[-1].rsplit("_", 1)[0], int(gkey.rsplit("_", 1)[1]))
    for n in range(1, nwrites + 1):
        path = env.scratch(pre_blob)
        outcome, log, exc = do_save(path, idnt, user, fault_at=n)
        if outcome != "fault" or log != calls[:n]:
            raise runner.HarnessError(f"write call sequence of save_hdf5 is not reproducible: {log} vs {calls[:n]}")
        d = {"step": "fault-" + kind, "file": desc["file"], "call": calls[n - 1]}
        ctx.event("fault@" + calls[n - 1].split(":")[0])
        relaxed = {stored.key: user} if stored is not None else None
        dmp, ratings = check_container(ctx, env, path, model if kind == "again" else others, tainted, d,
                                       relaxed=relaxed, unreadable="failed-save-makes-ratings-unreadable",
                                       skip=[target])
        if dmp is None:
            return None
        if kind == "again":
            diffs = diff_dumps(prev, dmp, user_only=gkey)
        else:
            diffs = diff_dumps(prev, dmp, allowed_prefixes=[gkey, dkey] if (
                prev is None or dkey not in prev or data_loose) else [gkey])
        ctx.check(not diffs, "failed-save-altered-other-entries", d, "; ".join(diffs)[:500])
        if n == keep_n and ratings is not None:
            kept = (path.read_bytes(), dmp, ratings)
        shutil.rmtree(path.parent, ignore_errors=True)
    return kept


def run(ctx):
    ctx.enumerate(fixed_histories(), run_history, label="fixed", stop_after=8)
    ctx.hypothesis(st_history(False), run_history, ctx.scale(160, 3200), label="history")
    ctx.hypothesis(st_history(True), run_history, ctx.scale(64, 1280), label="fault-history")


def replay(case, ctx):
    run_history(case, ctx)
