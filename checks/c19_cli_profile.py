"""C19 — the command-line profile persists what was entered and every profile the
interactive setup can produce is accepted by the batch fit.

(a) histories of set / get / get_fit_params / set_fit_params across new ``Profile(path)``
    objects against a plain dict model;
(b) a generated settings dict rendered as legacy ``key = value`` text and as JSON, loaded
    through ``Profile``;
(c) scripts of answers to ``setup_profile()`` driven through a scripted ``input()`` (the
    scripted user reads the printed menus and prompts like a person would);
(d) profiles produced by setup scripts are handed to ``fit_perform`` together with a small
    data folder; ``statistics.tsv`` / ``plots.tif`` are compared with an independent
    scripted fit (``Indentation.apply_preprocessing`` / ``fit_model`` / ``rate_quality``).
"""
import contextlib
import io
import itertools
import json
import pathlib
import re
import shutil
import sys

from hypothesis import strategies as st

PROPERTY = "C19"
SHARDS = {"quick": 8, "thorough": 16}
RULE = ("four Hypothesis-generated case kinds. history: start state (fresh / empty file / generated "
        "dict as legacy text / as JSON) + list of ops set, set-path, get, get_fit_params, set_fit_params, "
        "each on one of two live Profile objects or a new one; non-trivial = >= 1 write followed by >= 1 "
        "read through a *new* object. legacy: dict over a subset of the legacy keys, rendered with "
        "approach/retract or 0/1 segment names; non-trivial = >= 2 keys differ from the defaults. "
        "setup: 1-3 consecutive runs of setup_profile() on one file, every prompt answered from the "
        "offered domain (menu entries by name, numbers in the shown unit, true/false, absolute/relative, "
        "training-set label or path), skipped with '' or first answered invalidly (re-prompt expected); "
        "non-trivial = >= 2 prompts answered. batch: a fit-friendly setup script + a folder of 1-3 curves "
        "(synthetic HDF5 files in root/sub-folder, optionally a recorded JPK curve); non-trivial = always. "
        "distinct = distinct case record")
ASSUMPTIONS = [
    "the oracle's default values of the profile keys are read from nanite.cli.profile.DEFAULTS of the tree "
    "under test (the values themselves are not part of the property); a fresh profile must return them",
    "fit parameter values are generated inside the parameter bounds; a stored value that lies outside "
    "the bounds of a newly selected model (alpha 60 carried from the cone to the pyramid model) is "
    "expected clipped to the bounds, as lmfit does",
    "get_fit_params() writes the returned parameters through to the file (anchored mechanism "
    "'write-through defaults'); 'the stored entries' therefore include entries written by earlier "
    "get_fit_params() calls for another model",
    "unit conversion µm -> m is one multiplication: stored interval / weight values are compared with "
    "4 eps relative tolerance; skipped interval bounds may go through the same display round trip",
    "answer domains: list numbers that the menu shows, float literals inside parameter bounds; answers "
    "like '0', '7' or 'abc' to a numbered menu are outside the offered domain and not generated",
    "legacy files: keys of DEFAULTS except preprocessing_options (did not exist in key=value files), "
    "at least one preprocessing step, no blank lines, lists without blanks; 'fit param' lines are not generated",
    "range type answer 'relative' must be stored under the name the fitter accepts ('relative cp')",
    "an accepted preprocessing selection must be stored as a permutation of the answer that satisfies "
    "the acceptance rule of preproc.apply (every required step earlier), unchanged when the answer "
    "already was in valid order; a rejected (re-prompted) selection must lack a required step",
    "batch fits use well-conditioned data: synthetic curves of the selected model near the profile's "
    "initial parameters, contact point 0, >= 600 approach samples, fit interval covering contact and "
    "baseline; curves carry an innate tip position when the profile lacks compute_tip_position; the "
    "recorded curve is added only when the profile computes and offsets the tip position; the synthetic curves "
    "are noise-free when smooth_height is selected (the step raises 'Reached max_iter' when the deflection "
    "noise exceeds the height step, which is a limit of that step and not of the profile)",
    "batch fits do not use the model 'sneddon_spher' (third-party package nanite_model_sneddon_spher, not in "
    "/repo; its iterative solver did not return within 45 min for a fit with varying R and nu); the setup "
    "scripts do select it",
    "an ArithmeticError raised inside a model function during a batch fit (seen once: ZeroDivisionError of "
    "power_layer_clifford_2009 when the optimizer puts E_S on its lower bound 0.0) is counted as "
    "batch_model_arithmetic_error and not judged here",
    "E column is not compared for models without a parameter named E (two-layer model); only that "
    "the batch does not raise and the other columns are right",
    "batch fit == scripted fit with the same settings (docs: 'The fitting results are identical'), "
    "compared as exact strings; both run in one process with single-threaded BLAS",
]
EPS = sys.float_info.epsilon

#: pinned defaults (docs/sec_fitting_guide.rst, setup output with nothing entered)
PINNED_DEFAULTS = {
    "model_key": "sneddon_spher_approx",
    "preprocessing": ["compute_tip_position", "correct_force_offset", "correct_tip_offset"],
    "preprocessing_options": {},
    "range_type": "absolute",
    "range_x": [0, 0],
    "segment": 0,
    "weight_cp": 5e-7,
    "rating regressor": "Extra Trees",
    "rating training set": "zef18",
}
LEGACY_KEYS = [k for k in PINNED_DEFAULTS if k != "preprocessing_options"]
_DOCUMENTED_DEFAULTS = {k: (list(v) if isinstance(v, list) else dict(v) if isinstance(v, dict) else v)
                        for k, v in PINNED_DEFAULTS.items()}


def _sync_defaults():
    """the oracle's defaults are those of the tree under test (same keys)"""
    from nanite.cli import profile
    import copy as _copy
    for k in list(PINNED_DEFAULTS):
        if k in profile.DEFAULTS:
            PINNED_DEFAULTS[k] = _copy.deepcopy(profile.DEFAULTS[k])
RANGE_NAME = {"absolute": "absolute", "relative": "relative cp"}
FITTER_RANGE_TYPES = ("absolute", "relative cp")
OPTION_POOL = [
    {}, {},
    {"correct_tip_offset": {"method": "fit_constant_line"}},
    {"correct_tip_offset": {"method": "gradient_zero_crossing"}},
    {"correct_force_slope": {"region": "baseline", "strategy": "drift"}},
    {"correct_force_slope": {"region": "approach", "strategy": "shift"},
     "correct_tip_offset": {"method": "deviation_from_baseline"}},
]


# ---------------------------------------------------------------------------
# helpers

def same(a, b):
    """strict equality: bool/int/float kinds are told apart (a float segment or an int
    'vary' would be rejected by the fitter), NaN equals NaN"""
    if isinstance(a, bool) or isinstance(b, bool):
        return isinstance(a, bool) and isinstance(b, bool) and a == b
    if isinstance(a, (int, float)) and isinstance(b, (int, float)):
        if isinstance(a, int) != isinstance(b, int):
            return False
        return a == b or (a != a and b != b)
    if isinstance(a, (list, tuple)) and isinstance(b, (list, tuple)):
        return type(a) is type(b) and len(a) == len(b) and all(same(x, y) for x, y in zip(a, b))
    if isinstance(a, dict) and isinstance(b, dict):
        return set(a) == set(b) and all(same(a[k], b[k]) for k in a)
    return type(a) is type(b) and a == b


def close(a, b, ulps=4):
    if isinstance(a, (list, tuple)):
        return isinstance(b, (list, tuple)) and len(a) == len(b) and all(close(x, y, ulps) for x, y in zip(a, b))
    if isinstance(a, bool) or isinstance(b, bool) or not isinstance(a, (int, float)) \
            or not isinstance(b, (int, float)):
        return False
    return a == b or abs(a - b) <= ulps * EPS * max(abs(a), abs(b))


def decls():
    from nanite import preproc
    return {f.identifier: (list(f.steps_required or []), list(f.steps_optional or []))
            for f in preproc.PREPROCESSORS}


def closed(sel, D):
    """every (transitively) required step of a member is a member"""
    return all(set(D[s][0]) <= set(sel) for s in sel)


def requirements_met(order, D):
    """acceptance rule of preproc.apply (C14): every step's required steps occur earlier"""
    return all(set(D[s][0]) <= set(order[:i]) for i, s in enumerate(order))


def valid_order(order, D):
    for i, s in enumerate(order):
        req, opt = D[s]
        if any(r not in order[:i] for r in req):
            return False
        if any(o in order and o not in order[:i] for o in opt):
            return False
    return True


def model_table():
    """name -> [(param, default value, min, max, default vary)] from the model declarations"""
    from nanite import model as nmodel
    tab = {}
    for key in sorted(nmodel.models_available):
        d = nmodel.models_available[key].get_parameter_defaults()
        tab[key] = [(n, p.value, p.min, p.max, bool(p.vary)) for n, p in d.items()]
    return tab


def expected_params(state, tab):
    """selected model's defaults overridden by exactly the stored value / vary entries"""
    out = []
    for name, val, lo, hi, vary in tab[state.get("model_key", PINNED_DEFAULTS["model_key"])]:
        v = state.get(f"fit param {name} value", val)
        v = min(max(v, lo), hi)
        out.append((name, v, state.get(f"fit param {name} vary", vary)))
    return out


def write_through(state, tab):
    for name, v, vary in expected_params(state, tab):
        state[f"fit param {name} value"] = v
        state[f"fit param {name} vary"] = vary


def check_params(ctx, got, state, tab, sub, desc):
    from nanite import model as nmodel
    exp = expected_params(state, tab)
    mk = state.get("model_key", PINNED_DEFAULTS["model_key"])
    ref = nmodel.models_available[mk].get_parameter_defaults()
    ctx.check(list(got.keys()) == [e[0] for e in exp], sub, dict(desc, what="names"),
              f"parameter names {list(got.keys())} != {[e[0] for e in exp]} of model {mk}")
    for name, v, vary in exp:
        p = got[name]
        ctx.check(p.value == v, sub, dict(desc, what="value"),
                  f"{mk}.{name}: value {p.value!r}, stored/default {v!r}")
        ctx.check(isinstance(p.vary, bool) and p.vary == vary, sub, dict(desc, what="vary"),
                  f"{mk}.{name}: vary {p.vary!r}, stored/default {vary!r}")
        ctx.check(p.min == ref[name].min and p.max == ref[name].max and p.expr == ref[name].expr, sub,
                  dict(desc, what="bounds"), f"{mk}.{name}: bounds/expr differ from the model defaults")


_counter = itertools.count()


def revive(obj):
    """replay files hold non-finite floats as strings (runner.jsonable)"""
    if isinstance(obj, dict):
        return {k: revive(v) for k, v in obj.items()}
    if isinstance(obj, list):
        return [revive(v) for v in obj]
    if isinstance(obj, str) and obj in ("Infinity", "-Infinity", "NaN"):
        return float(obj.replace("Infinity", "inf"))
    return obj


def fresh_path(ctx, stem):
    d = ctx.workdir / f"{stem}{next(_counter)}"
    if d.exists():
        shutil.rmtree(d)
    d.mkdir(parents=True)
    return d


def render_legacy(values, style):
    lines = []
    for key in sorted(values):
        v = values[key]
        if key == "segment":
            v = {0: "approach", 1: "retract"}[v] if style.get("segment_words") else str(v)
        elif isinstance(v, list):
            v = ",".join(x if isinstance(x, str) else repr(float(x)) for x in v)
        elif isinstance(v, float):
            v = repr(v)
        lines.append(f"{key}{style.get('eq', ' = ')}{v}")
    # (a file that holds nothing but a line break is not a key=value file)
    return "\n".join(lines) + ("\n" if lines and style.get("newline") else "")


def write_start(path, start):
    """start: 'fresh' | 'empty' | {'form': 'legacy'|'json', 'values': {...}, 'style': {...}}"""
    if start == "fresh":
        return {}
    if start == "empty":
        path.write_text("")
        return {}
    vals = start["values"]
    if start["form"] == "legacy":
        path.write_text(render_legacy(vals, start.get("style", {})))
    else:
        path.write_text(json.dumps(vals, indent=2, sort_keys=True))
    return json.loads(json.dumps(vals))


# ---------------------------------------------------------------------------
# (a) histories

def check_history(case, ctx):
    from nanite.cli import profile
    import lmfit
    tab = model_table()
    d = fresh_path(ctx, "hist")
    path = d / "sub" / "cli_profile.cfg" if case.get("nested") else d / "cli_profile.cfg"
    if case.get("nested") and case["start"] not in ("fresh",):
        path.parent.mkdir()
    state = write_start(path, case["start"])
    objs = {}
    wrote = False
    kinds = set()
    for i, op in enumerate(case["ops"]):
        desc = {"op": op["op"]}
        slot = op.get("obj", 0)
        is_new = op.get("new") or slot not in objs
        if is_new:
            with ctx.no_raise("profile-init-raises", {"start": start_kind(case)}):
                objs[slot] = profile.Profile(path)
        pf = objs[slot]
        kinds.add(op["op"])
        if op["op"] == "set":
            with ctx.no_raise("set-raises", dict(desc, key=keyclass(op["key"]))):
                pf[op["key"]] = op["value"]
            state[op["key"]] = json.loads(json.dumps(op["value"]))
            wrote = True
        elif op["op"] == "set_path":
            with ctx.no_raise("set-raises", dict(desc, key="rating training set")):
                pf["rating training set"] = pathlib.Path(op["value"])
            state["rating training set"] = str(pathlib.Path(op["value"]))
            wrote = True
        elif op["op"] == "get":
            key = op["key"]
            want = state.get(key, PINNED_DEFAULTS[key])
            with ctx.no_raise("get-raises", dict(desc, key=key)):
                got = pf[key]
            ctx.check(same(got, want), "read-after-write", {"key": key, "start": start_kind(case)},
                      f"op {i}: Profile[{key!r}] -> {got!r}, written/default {want!r}")
        elif op["op"] == "get_fit_params":
            with ctx.no_raise("get_fit_params-raises", desc):
                got = pf.get_fit_params()
            check_params(ctx, got, state, tab, "fit-params", {"via": "history"})
            write_through(state, tab)
        elif op["op"] == "set_fit_params":
            params = lmfit.Parameters()
            for name, (v, vary) in op["params"].items():
                params.add(name, value=v, vary=vary)
            with ctx.no_raise("set_fit_params-raises", desc):
                pf.set_fit_params(params)
            for name, (v, vary) in op["params"].items():
                state[f"fit param {name} value"] = v
                state[f"fit param {name} vary"] = vary
            wrote = True
        else:
            raise ValueError(op["op"])
    # final read of everything through a new object
    with ctx.no_raise("profile-init-raises", {"start": start_kind(case)}):
        pf = profile.Profile(path)
    for key in PINNED_DEFAULTS:
        want = state.get(key, PINNED_DEFAULTS[key])
        with ctx.no_raise("get-raises", {"op": "get", "key": key}):
            got = pf[key]
        ctx.check(same(got, want), "read-after-write", {"key": key, "start": start_kind(case)},
                  f"final: Profile[{key!r}] -> {got!r}, written/default {want!r}")
    with ctx.no_raise("get_fit_params-raises", {"op": "get_fit_params"}):
        got = profile.Profile(path).get_fit_params()
    check_params(ctx, got, state, tab, "fit-params", {"via": "history"})
    ctx.note_case(case, nontrivial=wrote,
                  classes=["history", "history_start_" + start_kind(case)] + [f"op_{k}" for k in sorted(kinds)])


def start_kind(case):
    s = case["start"]
    return s if isinstance(s, str) else s["form"]


def keyclass(key):
    return "fit param" if key.startswith("fit param") else key


# ---------------------------------------------------------------------------
# (b) legacy vs JSON

def check_legacy(case, ctx):
    from nanite.cli import profile
    tab = model_table()
    d = fresh_path(ctx, "legacy")
    vals = case["values"]
    p_leg, p_json = d / "legacy.cfg", d / "json.cfg"
    p_leg.write_text(render_legacy(vals, case["style"]))
    p_json.write_text(json.dumps(vals, indent=2, sort_keys=True))
    ndiff = sum(1 for k in vals if vals[k] != PINNED_DEFAULTS[k])
    ctx.note_case(case, nontrivial=ndiff >= 2,
                  classes=["legacy", "legacy_segment_words" if case["style"].get("segment_words") else
                           "legacy_segment_digits"])
    desc = {"segment_words": bool(case["style"].get("segment_words"))}
    for rnd in (0, 1):     # second round: the legacy file has been rewritten by the first
        with ctx.no_raise("legacy-load-raises", desc):
            a = profile.Profile(p_leg)
            b = profile.Profile(p_json)
        for key in PINNED_DEFAULTS:
            want = vals.get(key, PINNED_DEFAULTS[key])
            with ctx.no_raise("legacy-load-raises", dict(desc, key=key)):
                ga, gb = a[key], b[key]
            ctx.check(same(gb, want), "read-after-write", {"key": key, "start": "json"},
                      f"JSON form: Profile[{key!r}] -> {gb!r}, file holds {want!r}")
            ctx.check(same(ga, want), "legacy-differs-from-json", {"key": key, "present": key in vals},
                      f"legacy file: {key!r} loads as {ga!r}, JSON form as {gb!r} (round {rnd})")
        with ctx.no_raise("get_fit_params-raises", {"op": "get_fit_params", "start": "legacy"}):
            pa, pb = a.get_fit_params(), b.get_fit_params()
        check_params(ctx, pa, dict(vals), tab, "fit-params", {"via": "legacy"})
        check_params(ctx, pb, dict(vals), tab, "fit-params", {"via": "json"})


# ---------------------------------------------------------------------------
# (c) interactive setup

class Desync(Exception):
    pass


class ScriptedUser:
    """Answers the prompts of setup_profile() from a run record.  It identifies what is asked
    from the prompt text and the last printed heading and translates names to the numbers of
    the printed menu, like a person in front of the terminal."""
    HEADINGS = [("preprocessing", "preprocessing"), ("model number", "model"),
                ("range type", "range_type"), ("regressor", "regressor")]

    def __init__(self, run, resolve):
        self.run = run
        self.resolve = resolve
        self.section = None
        self.menus = {}
        self.log = []        # [pid, answer-as-typed, semantic answer]
        self.count = {}

    def identify(self, out, prompt):
        low = out.lower()
        for word, sec in self.HEADINGS:
            if word in low:
                self.section = sec
                menu = {}
                for m in re.finditer(r"^\s*(\d+):\s*(.+?)\s*$", out, flags=re.M):
                    menu[m.group(2)] = m.group(1)
                self.menus[sec] = menu
        m = re.search(r"initial value for (\S+)", prompt)
        if m:
            return "value:" + m.group(1)
        m = re.match(r"\s*vary (\S+)", prompt)
        if m:
            return "vary:" + m.group(1)
        for word, pid in (("left [", "left"), ("right [", "right"), ("size [", "weight"),
                          ("training set", "training")):
            if word in prompt:
                if "µm" not in prompt and pid != "training":
                    raise Desync(f"prompt {prompt!r} does not state the unit µm")
                return pid
        if "currently" in prompt and self.section:
            return self.section
        raise Desync(f"prompt not understood: {prompt!r} after {out[-80:]!r}")

    def attempt(self, pid, answers):
        """answers: list of successive answers for re-prompts; '' once exhausted"""
        k = self.count.get(pid, 0)
        self.count[pid] = k + 1
        if k > 20:
            raise Desync(f"prompt {pid} repeated more than 20 times")
        return answers[k] if k < len(answers) else None

    def __call__(self, out, prompt):
        pid = self.identify(out, prompt)
        run = self.run
        sem = None
        if pid == "preprocessing":
            sem = self.attempt(pid, run.get("preprocessing", []))
            typed = "" if not sem else run.get("sep", ",").join(self.number(pid, s) for s in sem)
        elif pid in ("model", "regressor"):
            sem = self.attempt(pid, [run.get(pid)] if run.get(pid) else [])
            typed = "" if not sem else self.number(pid, sem)
        elif pid.startswith("value:"):
            sem = self.attempt(pid, [run.get("params", {}).get(pid[6:], {}).get("value") or ""])
            typed = sem or ""
        elif pid.startswith("vary:"):
            sem = self.attempt(pid, run.get("params", {}).get(pid[5:], {}).get("vary", []))
            typed = sem or ""
        elif pid == "training":
            sem = self.attempt(pid, run.get("training", []))
            typed = self.resolve(sem) if sem else ""
        elif pid == "range_type":
            sem = self.attempt(pid, run.get("range_type", []))
            typed = sem or ""
        else:   # left, right, weight
            sem = self.attempt(pid, [run.get(pid) or ""])
            typed = sem or ""
        self.log.append([pid, typed, sem if typed else None])
        return typed

    def number(self, sec, name):
        try:
            return self.menus[sec][name]
        except KeyError:
            raise Desync(f"menu of {sec} does not offer {name!r}: {self.menus.get(sec)}")


@contextlib.contextmanager
def redirected_profile(path):
    """setup_profile() uses Profile() with the import-time default path: redirect it"""
    from nanite.cli import profile
    import builtins
    init = profile.Profile.__init__
    saved = (init.__defaults__, profile.PROFILE_PATH, builtins.input, sys.argv)
    if not (init.__defaults__ and isinstance(init.__defaults__[0], pathlib.Path)):
        raise RuntimeError("Profile.__init__ has no default path argument to redirect")
    init.__defaults__ = (pathlib.Path(path),) + init.__defaults__[1:]
    profile.PROFILE_PATH = pathlib.Path(path)
    sys.argv = ["nanite-setup-profile"]
    try:
        yield builtins
    finally:
        init.__defaults__, profile.PROFILE_PATH, builtins.input, sys.argv = saved


def drive_setup(path, user):
    from nanite.cli import profile
    buf = io.StringIO()

    def scripted_input(prompt=""):
        out = buf.getvalue()
        buf.seek(0)
        buf.truncate()
        return user(out, prompt)

    with redirected_profile(path) as builtins:
        builtins.input = scripted_input
        with contextlib.redirect_stdout(buf):
            profile.setup_profile()


def resolver(ctx):
    """placeholders in training-set answers -> paths inside the shard's work directory"""
    def resolve(ans):
        if ans == "@user":
            return str(user_training_set(ctx))
        if ans == "@user/":     # the same directory, spelled with a trailing separator
            return str(user_training_set(ctx)) + "/"
        if ans == "@user.":     # ... and with a redundant '.' component
            d = user_training_set(ctx)
            return str(d.parent) + "/./" + d.name
        if ans == "@emptydir":
            d = ctx.workdir / "empty_ts"
            d.mkdir(exist_ok=True)
            return str(d)
        return ans
    return resolve


def user_training_set(ctx):
    """a complete user training set that differs from zef18 (every other sample of it)"""
    import numpy as np
    from nanite.rate import IndentationRater
    d = ctx.workdir / "user_ts"
    if not d.exists():
        src = pathlib.Path(IndentationRater.get_training_set_path("zef18"))
        d.mkdir()
        for f in sorted(src.glob("train_*.txt")):
            np.savetxt(d / f.name, np.loadtxt(f)[::2])
    return d


VARY_WORDS = {"true": True, "false": False}


def training_valid(sem):
    return sem in ("zef18", "@user", "@user/", "@user.")


def apply_run_log(ctx, log, state, D):
    """Update the expected profile ``state`` from the logged prompts/answers of one setup run:
    consecutive entries of one prompt are re-prompts (all but the last answer were rejected).
    Preprocessing and range-type answers are entered symbolically and resolved by
    compare_setup_state.  Returns counts and the list of prompts seen."""
    groups = []
    for pid, typed, sem in log:
        if groups and groups[-1][0] == pid:
            groups[-1][1].append((typed, sem))
        else:
            groups.append([pid, [(typed, sem)]])
    seen = [g[0] for g in groups]
    info = {"answered": 0, "reprompts": 0, "interval": ["skipped", "skipped"]}
    for pid, answers in groups:
        *rejected, (typed, sem) = answers
        kind = pid.split(":")[0]
        for rtyped, rsem in rejected:
            info["reprompts"] += 1
            if kind == "preprocessing":
                ok = not closed(rsem, D)
            elif kind == "vary":
                ok = rtyped.strip().lower() not in VARY_WORDS
            elif kind == "range_type":
                ok = rtyped not in RANGE_NAME
            elif kind == "training":
                ok = not training_valid(rsem)
            else:
                ok = False
            ctx.check(ok, "setup-rejects-valid-answer", {"prompt": kind},
                      f"prompt {pid}: answer {rtyped!r} ({rsem!r}) was asked again")
        if not typed:
            continue
        info["answered"] += 1
        if kind == "preprocessing":
            state["preprocessing"] = ("selection", list(sem))
        elif kind == "model":
            state["model_key"] = sem
        elif kind == "regressor":
            state["rating regressor"] = sem
        elif kind == "value":
            state[f"fit param {pid[6:]} value"] = float(typed)
        elif kind == "vary":
            word = typed.strip().lower()
            ctx.check(word in VARY_WORDS, "setup-accepts-invalid-answer", {"prompt": kind},
                      f"prompt {pid}: {typed!r} was accepted")
            state[f"fit param {pid[5:]} vary"] = VARY_WORDS.get(word)
        elif kind == "range_type":
            ctx.check(typed in RANGE_NAME, "setup-accepts-invalid-answer", {"prompt": kind},
                      f"range type {typed!r} was accepted")
            state["range_type"] = ("range", typed)
        elif kind in ("left", "right"):
            ix = 0 if kind == "left" else 1
            rx = list(state.get("range_x", PINNED_DEFAULTS["range_x"]))
            rx[ix] = float(typed) * 1e-6
            state["range_x"] = rx
            info["interval"][ix] = "answered"
        elif kind == "weight":
            state["weight_cp"] = float(typed) * 1e-6
        elif kind == "training":
            ctx.check(training_valid(sem), "setup-accepts-invalid-answer", {"prompt": kind},
                      f"training set {typed!r} was accepted")
            state["rating training set"] = typed
    info["prompts"] = seen
    return info


def compare_setup_state(ctx, path, state, tab, D, info, run_index):
    """stored profile == expected state after a setup run; resolves the symbolic entries"""
    from nanite.cli import profile
    with ctx.no_raise("profile-init-raises", {"start": "after-setup"}):
        pf = profile.Profile(path, create=False)
    ival = "/".join(info["interval"])
    for key in PINNED_DEFAULTS:
        with ctx.no_raise("get-raises", {"op": "get", "key": key}):
            got = pf[key]
        want = state.get(key, PINNED_DEFAULTS[key])
        if key == "preprocessing" and isinstance(want, tuple):
            sel = want[1]
            ctx.check(isinstance(got, list) and sorted(got) == sorted(sel), "setup-stored-value",
                      {"key": key, "answered": True},
                      f"steps {sel} selected, {got} stored")
            ctx.check(requirements_met(got, D), "setup-stores-unfittable-preprocessing",
                      {"reason": "required step missing" if not closed(got, D) else "required step later"},
                      f"selection {sel} accepted and stored as {got}: preproc.apply / nanite-fit reject it "
                      f"(a step's required steps must be applied before it)")
            if valid_order(sel, D):
                ctx.check(got == sel, "setup-stored-value", {"key": key, "answered": True},
                          f"validly ordered selection {sel} stored as {got}")
            state[key] = got
            continue
        if key == "range_type" and isinstance(want, tuple):
            ans = want[1]
            ctx.check(got in FITTER_RANGE_TYPES and got == RANGE_NAME.get(ans), "setup-stored-value",
                      {"key": key, "answered": True, "answer": ans},
                      f"range type answer {ans!r} stored as {got!r}; the fitter knows "
                      f"{list(FITTER_RANGE_TYPES)} ({ans!r} is {RANGE_NAME.get(ans)!r} there)")
            state[key] = got
            continue
        if key == "range_x":
            ctx.check(close(got, want) or same(got, want), "setup-stored-value",
                      {"key": key, "interval": ival},
                      f"run {run_index}: interval left/right {ival}: stored {got!r}, expected {want!r} [m]")
            state[key] = got
            continue
        if key == "weight_cp":
            ctx.check(close(got, want) or same(got, want), "setup-stored-value", {"key": key},
                      f"run {run_index}: weight_cp stored {got!r}, expected {want!r} [m]")
            state[key] = got
            continue
        ctx.check(same(got, want), "setup-stored-value", {"key": key},
                  f"run {run_index}: {key!r} stored {got!r}, expected {want!r}")
    with ctx.no_raise("get_fit_params-raises", {"op": "get_fit_params", "start": "after-setup"}):
        got = profile.Profile(path, create=False).get_fit_params()
    check_params(ctx, got, state, tab, "setup-stored-value", {"key": "fit param"})
    write_through(state, tab)


def run_setup_script(case, ctx, d):
    """Runs the setup script of ``case`` on a profile file in directory ``d``.
    Returns (path, expected state) or None when a listed known finding stopped the script."""
    from vlib.runner import HarnessError, Violation
    tab = model_table()
    D = decls()
    path = d / "config" / "nanite" / "cli_profile.cfg"
    if case["start"] != "fresh":
        path.parent.mkdir(parents=True)
    state = write_start(path, case["start"])
    resolve = resolver(ctx)
    for ri, run in enumerate(case["runs"]):
        user = ScriptedUser(run, resolve)
        try:
            drive_setup(path, user)
        except Desync as exc:
            raise HarnessError(f"scripted user lost track of setup_profile(): {exc}") from exc
        except (Violation, HarnessError, KeyboardInterrupt, MemoryError):
            raise
        except BaseException as exc:  # noqa
            last = user.log[-1] if user.log else ["none", "", None]
            sig = {"last_prompt": last[0].split(":")[0], "answered": bool(last[1]),
                   "exception": type(exc).__name__}
            if last[0] == "right":
                sig["left_answered"] = bool(user.log[-2][1])
            ctx.fail("setup-raises", sig,
                     f"run {ri}: setup_profile() raised {type(exc).__name__}: {str(exc)[:120]} after "
                     f"prompt {last[0]!r} was answered {last[1]!r}; answers typed so far "
                     f"{[(p, t) for p, t, _ in user.log if t]}")
            return None     # listed known finding: nothing more to compare for this script
        # the model that was selected decides which parameters had to be asked for
        info = apply_run_log(ctx, user.log, state, D)
        asked = [p[6:] for p in info["prompts"] if p.startswith("value:")]
        names = [t[0] for t in tab[state.get("model_key", PINNED_DEFAULTS["model_key"])]]
        ctx.check(asked == names, "setup-asks-wrong-parameters", {},
                  f"parameters asked {asked}, model parameters {names}")
        compare_setup_state(ctx, path, state, tab, D, info, ri)
        ctx.extra["max_prompts_per_run"] = max(ctx.extra.get("max_prompts_per_run", 0), len(user.log))
        for lab in ("answered", "reprompts"):
            ctx.event(f"setup_{lab}", info[lab])
    return path, state


def n_answers(case):
    n = 0
    for run in case["runs"]:
        n += bool(run.get("preprocessing")) + bool(run.get("model")) + bool(run.get("regressor"))
        n += sum(bool(run.get(k)) for k in ("left", "right", "weight", "range_type", "training"))
        n += sum(bool(p.get("value")) + bool(p.get("vary")) for p in run.get("params", {}).values())
    return n


def check_setup(case, ctx):
    d = fresh_path(ctx, "setup")
    ctx.note_case(case, nontrivial=n_answers(case) >= 2,
                  classes=["setup", f"setup_runs_{len(case['runs'])}", "setup_start_" + start_kind(case)])
    run_setup_script(case, ctx, d)


# ---------------------------------------------------------------------------
# (d) batch fit

def curve_for(state, tab, spec):
    """synthetic curve of the profile's model near the profile's initial parameters"""
    from vlib import synth, refmodels
    mk = state.get("model_key", PINNED_DEFAULTS["model_key"])
    ref = mk if mk in refmodels.MODELS else "sneddon_spher_approx"
    init = {n: v for n, v, _ in expected_params(state, tab)}
    params = dict(synth.DEFAULT_PARAMS[ref])
    for name in params:
        if name in init and init[name] > 0:
            params[name] = init[name]
    for name in params:
        if name.startswith("E"):
            params[name] = params[name] * spec["efac"]
    if "nu" in params:
        params["nu"] = min(params["nu"], 0.5)
    depth = 1e-6
    if "R" in params:
        depth = min(depth, 0.5 * params["R"])
    return synth.base_case(ref, params=dict(params, contact_point=0.0, baseline=0.0),
                           n_app=spec["n_app"], n_ret=spec["n_ret"], z0=2 * depth, depth=depth,
                           k=spec["k"], noise=spec["noise"], noise_seed=spec["seed"],
                           with_tip=spec["with_tip"])


def model_arithmetic(exc):
    """an arithmetic error raised inside a model function while the optimizer explores the parameter
    bounds (seen: ZeroDivisionError of power_layer_clifford_2009 at E_S = 0.0, its lower bound) is the
    model contract's business (C13), not a statement about the profile: counted, not judged"""
    import traceback
    frames = [fr for fr in traceback.extract_tb(exc.__traceback__) if "/nanite/" in fr.filename]
    return bool(frames) and "/nanite/model/" in frames[-1].filename


def check_batch(case, ctx):
    import tifffile
    from nanite.cli import rating
    from nanite.group import IndentationGroup
    from nanite import model as nmodel
    from vlib import synth
    d = fresh_path(ctx, "batch")
    ctx.note_case(case, nontrivial=True, classes=["batch"])
    res = run_setup_script(case, ctx, d)
    if res is None:
        return
    path, state = res
    tab = model_table()
    full = {k: state.get(k, PINNED_DEFAULTS[k]) for k in PINNED_DEFAULTS}
    mk = full["model_key"]
    pre = full["preprocessing"]
    # ---- data folder
    folder = d / "data"
    folder.mkdir()
    need_tip = "compute_tip_position" not in pre
    # smooth_height gives up (ValueError: Reached `max_iter`) on height data with > 1000 runs of equal
    # median-filtered values, i.e. when the deflection noise exceeds the height step (0.3 % force noise on a
    # 0.02 N/m cantilever at 15 kPa): a limit of that step on such data, not of the profile -> noise-free curves
    smooth = "smooth_height" in pre
    expected_rows = []
    for fi, fspec in enumerate(case["files"]):
        sub = folder / fspec["dir"] if fspec["dir"] else folder
        sub.mkdir(exist_ok=True)
        cases = [curve_for(state, tab, dict(c, with_tip=c["with_tip"] or need_tip,
                                            noise=0.0 if smooth else c["noise"]))
                 for c in fspec["curves"]]
        fp = synth.write_h5(cases, sub / f"synth{fi}.h5")
        expected_rows += [(fp, e) for e in range(len(cases))]
    rec_ok = ("compute_tip_position" in pre and "correct_tip_offset" in pre)
    if case.get("recorded") and rec_ok:
        from vlib.runner import REPO
        fp = folder / "rec spot3.jpk-force"
        shutil.copy(REPO / "tests" / "data" / "fmt-jpk-fd_spot3-0192.jpk-force", fp)
        expected_rows.append((fp, 0))
        ctx.event("batch_with_recorded_curve")
    ctx.event("batch_curves", len(expected_rows))
    ctx.event("batch_model_" + mk)
    ctx.event("batch_range_" + full["range_type"].replace(" ", "_"))
    # ---- run the batch
    out = d / "results"
    out.mkdir()
    desc = {"model": mk, "range_type": full["range_type"]}
    if len(expected_rows) % 2 == 1:
        # the results directory already holds the output of an earlier run (over other data): the statistics
        # file must describe THIS run only
        (out / "statistics.tsv").write_text("path\tenum\tE\trating\n/old/run/curve.jpk-force\t0\t1234.5\t3.2\n")
        (out / "plots.tif").write_bytes(b"stale")
        ctx.event("batch_into_used_results_dir")
        desc["results_dir"] = "used"
    rating.fit_data.cache_clear()
    ok = False
    try:
        with ctx.no_raise("batch-fit-raises", desc, allowed=(ArithmeticError,)):
            with contextlib.redirect_stdout(io.StringIO()):
                rating.fit_perform(path=folder, path_results=out, profile_path=path)
            ok = True
    except ArithmeticError as exc:
        if not model_arithmetic(exc):
            ctx.fail("batch-fit-raises", dict(desc, exception=type(exc).__name__),
                     f"raised {type(exc).__name__}: {exc}")
        ctx.event("batch_model_arithmetic_error")
    finally:
        rating.fit_data.cache_clear()
    if not ok:
        return
    # the batch must not have changed the settings it was given
    from nanite.cli import profile
    pf = profile.Profile(path, create=False)
    for key in PINNED_DEFAULTS:
        ctx.check(same(pf[key], full[key]), "batch-changes-profile", {"key": key},
                  f"{key!r} is {pf[key]!r} after nanite-fit, was {full[key]!r}")
    # ---- statistics
    text = (out / "statistics.tsv").read_text()
    lines = text.split("\n")
    ctx.check(lines[-1] == "" and lines[0].split("\t") == ["path", "enum", "E", "rating"], "statistics-format",
              {}, f"header {lines[0]!r}")
    rows = [ln.split("\t") for ln in lines[1:-1]]
    ctx.check(len(rows) == len(expected_rows) and all(len(r) == 4 for r in rows), "statistics-rows", desc,
              f"{len(rows)} rows for {len(expected_rows)} curves: {rows}")
    got = {(r[0], r[1]): r for r in rows}
    ctx.check(len(got) == len(rows), "statistics-rows", desc, f"duplicate rows: {rows}")
    has_E = any(t[0] == "E" for t in tab[mk])
    for fp, enum in expected_rows:
        row = got.get((str(fp), str(enum)))
        ctx.check(row is not None, "statistics-rows", desc,
                  f"no row for curve {fp.name} enum {enum}; rows {[r[:2] for r in rows]}")
        if row is None:
            continue
        # independent scripted fit with the same settings
        idnt = IndentationGroup(fp)[enum]
        idnt.apply_preprocessing(preprocessing=list(pre), options=full["preprocessing_options"])
        params = nmodel.models_available[mk].get_parameter_defaults()
        for name, v, vary in expected_params(state, tab):
            params[name].set(value=v, vary=vary)
        try:
            idnt.fit_model(model_key=mk, params_initial=params, range_type=full["range_type"],
                           range_x=list(full["range_x"]), segment=full["segment"], weight_cp=full["weight_cp"])
        except ArithmeticError as exc:
            if not model_arithmetic(exc):
                raise
            ctx.event("batch_model_arithmetic_error")
            continue
        fitted = idnt.fit_properties["params_fitted"]
        if has_E:
            want = str(fitted["E"].value)
            ctx.check(row[2] == want, "statistics-E", desc,
                      f"{fp.name}[{enum}]: E column {row[2]!r}, scripted fit with the profile settings {want!r}")
            ctx.event("batch_E_compared")
        rt = idnt.rate_quality(training_set=full["rating training set"], regressor=full["rating regressor"])
        want = str(round(rt, 1))
        ctx.check(row[3] == want, "statistics-rating", dict(desc, regressor=full["rating regressor"]),
                  f"{fp.name}[{enum}]: rating column {row[3]!r}, round(rate_quality, 1) = {want!r} ({rt!r})")
        if float(want) != round(float(want)):
            ctx.event("batch_rating_with_decimal")
        ctx.extra["max_rating"] = max(ctx.extra.get("max_rating", 0.0), float(rt))
    # ---- plots
    with tifffile.TiffFile(out / "plots.tif") as tf:
        npages = len(tf.pages)
    ctx.check(npages == len(expected_rows), "plots-pages", desc,
              f"plots.tif has {npages} pages for {len(expected_rows)} curves")


# ---------------------------------------------------------------------------
# fixed sub-checks

def check_defaults(case, ctx):
    from nanite.cli import profile
    ctx.note_case(case, nontrivial=False, classes=["defaults"])
    # the default *values* are not part of the property: the oracle follows the tree's DEFAULTS
    # (see _sync_defaults); a difference from the values documented at build time is only counted
    if profile.DEFAULTS != _DOCUMENTED_DEFAULTS:
        ctx.event("defaults_differ_from_documented")
    d = fresh_path(ctx, "defaults")
    pf = profile.Profile(d / "new" / "dir" / "cli_profile.cfg")
    for key, want in PINNED_DEFAULTS.items():
        ctx.check(pf[key] == want and pf[key] == want, "defaults-changed", {"key": key},
                  f"fresh profile: {key!r} -> {pf[key]!r}")
    try:
        profile.Profile(d / "absent.cfg", create=False)
        ctx.fail("missing-profile-accepted", {}, "Profile(create=False) on a missing file did not raise")
    except ValueError:
        pass


# ---------------------------------------------------------------------------
# strategies

def strategies(k=0):
    """``k`` rotates the option lists of the batch scripts: Hypothesis starts every run with the
    simplest example (first option everywhere), which would otherwise be the same batch fit in
    every shard"""
    tab = model_table()

    def rot(seq):
        seq = list(seq)
        return seq[k % len(seq):] + seq[:k % len(seq)]

    D = decls()
    from nanite import rate
    steps = sorted(D)
    models = sorted(tab)
    regs = list(rate.reg_names)
    batch_models = [m for m in models if m != "sneddon_spher"]
    bounds = {}
    for key in models:
        for name, val, lo, hi, vary in tab[key]:
            b = bounds.setdefault(name, [lo, hi])
            b[0], b[1] = max(b[0], lo), min(b[1], hi)
    pnames = sorted(bounds)

    def logu(lo, hi):
        return st.floats(lo, hi).map(lambda e: float(f"{10.0 ** e:.6g}"))

    def value_for(name, friendly=False):
        lo, hi = bounds[name]
        if name.startswith("E_L"):
            return logu(0.5, 2.9)
        if name.startswith("E"):
            return logu(2.5, 4.5) if friendly else logu(-2.0, 9.0)
        if name.startswith("nu"):
            return st.floats(0.2 if friendly else 0.0, 0.5).map(lambda v: round(v, 4))
        if name == "R":
            return st.floats(2e-6, 30e-6) if friendly else logu(-8.0, -3.0)
        if name == "alpha":
            return st.floats(5.0, 29.0).map(lambda v: round(v, 3)) if friendly else \
                st.floats(0.5, 80.0).map(lambda v: round(v, 3))
        if name == "t":
            return logu(-8.0, -6.5 if friendly else -5.0)
        if name == "contact_point":
            return st.floats(-3e-7, 3e-7) if friendly else st.floats(-1e-5, 1e-5)
        if name == "baseline":
            return st.floats(-1e-11, 1e-11) if friendly else st.floats(-1e-8, 1e-8)
        return st.floats(max(lo, -1e3), min(hi, 1e3))

    any_sel = st.lists(st.sampled_from(steps), min_size=1, max_size=len(steps), unique=True)

    def close_sel(sel):
        out = list(sel)
        for s in out:
            for r in D[s][0]:
                if r not in out:
                    out.append(r)
        return out

    def sort_valid(sel):
        # a valid order by repeated selection of a step whose predecessors are placed (independent of autosort)
        rest, out = list(sel), []
        while rest:
            for s in rest:
                req, opt = D[s]
                if all(r in out for r in req) and all(o in out or o not in sel for o in opt):
                    out.append(s)
                    rest.remove(s)
                    break
            else:
                raise RuntimeError(f"no valid order for {sel}")
        return out

    valid_sel = any_sel.map(close_sel).map(sort_valid)
    fittable_sel = any_sel.map(close_sel)      # requirement-closed, arbitrary order

    finite = st.floats(-1e-4, 1e-4)
    value_of_key = {
        "model_key": st.sampled_from(models),
        "preprocessing": any_sel,
        "preprocessing_options": st.sampled_from(OPTION_POOL),
        "range_type": st.sampled_from(list(FITTER_RANGE_TYPES)),
        "range_x": st.lists(finite | st.sampled_from([0.0, float("inf"), -2e-6, 1.3e-6]), min_size=2, max_size=2),
        "segment": st.sampled_from([0, 1]),
        "weight_cp": st.floats(0.0, 1e-5) | st.sampled_from([0.0, 5e-7, 2e-6]),
        "rating regressor": st.sampled_from(regs),
        "rating training set": st.sampled_from(["zef18", "/data/my ts=1/ts_own", "ts_rel,dir", "C:\\ts\\own"]),
    }

    def settings_dict(keys, valid=False, friendly=False):
        def one(key):
            if key == "preprocessing" and (valid or friendly):
                return valid_sel
            if key == "model_key" and friendly:
                return st.sampled_from(batch_models)
            if key == "rating training set" and friendly:
                return st.just("zef18")
            if key == "range_x" and friendly:
                return st.sampled_from([[0.0, 0.0], [-5e-6, 3e-6], [-2e-6, 2e-6]])
            if key == "weight_cp" and friendly:
                return st.sampled_from([0.0, 2e-7, 5e-7, 1e-6])
            return value_of_key[key]
        return st.lists(st.sampled_from(keys), unique=True, max_size=len(keys)).flatmap(
            lambda ks: st.fixed_dictionaries({k: one(k) for k in ks}))

    fitparam_entries = st.dictionaries(
        st.sampled_from(pnames), st.tuples(st.booleans(), st.booleans()), max_size=4).flatmap(
        lambda sel: st.fixed_dictionaries(
            {**{f"fit param {n} value": value_for(n) for n, (a, b) in sel.items() if a},
             **{f"fit param {n} vary": st.booleans() for n, (a, b) in sel.items() if b}}))

    style = st.fixed_dictionaries({"segment_words": st.booleans(), "newline": st.booleans(),
                                   "eq": st.sampled_from([" = ", " = ", "=", "= "])})
    legacy_vals = settings_dict(LEGACY_KEYS)
    start_any = st.one_of(
        st.just("fresh"), st.just("empty"),
        st.fixed_dictionaries({"form": st.just("legacy"), "values": legacy_vals, "style": style}),
        st.fixed_dictionaries({"form": st.just("json"), "values": st.builds(
            lambda a, b: {**a, **b}, settings_dict(list(PINNED_DEFAULTS)), fitparam_entries)}))

    # ---- (a)
    obj = st.fixed_dictionaries({"obj": st.sampled_from([0, 0, 1]), "new": st.booleans()})

    def with_obj(s):
        return st.builds(lambda a, b: {**a, **b}, s, obj)

    set_default_key = st.sampled_from(list(PINNED_DEFAULTS)).flatmap(
        lambda k: st.fixed_dictionaries({"op": st.just("set"), "key": st.just(k), "value": value_of_key[k]}))
    set_fit_key = st.sampled_from(pnames).flatmap(lambda n: st.one_of(
        st.fixed_dictionaries({"op": st.just("set"), "key": st.just(f"fit param {n} value"),
                               "value": value_for(n) | (st.integers(1, 50) if n.startswith("E") else value_for(n))}),
        st.fixed_dictionaries({"op": st.just("set"), "key": st.just(f"fit param {n} vary"), "value": st.booleans()})))
    set_path = st.fixed_dictionaries({"op": st.just("set_path"),
                                      "value": st.sampled_from(["/tmp/ts_own", "rel/ts", "/data/ts own/x=1"])})
    get = st.fixed_dictionaries({"op": st.just("get"), "key": st.sampled_from(list(PINNED_DEFAULTS))})
    gfp = st.just({"op": "get_fit_params"})
    sfp = st.fixed_dictionaries({"op": st.just("set_fit_params"), "params": st.dictionaries(
        st.sampled_from(pnames), st.booleans(), min_size=1, max_size=4).flatmap(
        lambda sel: st.fixed_dictionaries({n: st.tuples(value_for(n), st.booleans()).map(list) for n in sel}))})
    op = with_obj(st.one_of(set_default_key, set_default_key, set_fit_key, set_fit_key, set_path, get, get, gfp, gfp, sfp))
    history = st.fixed_dictionaries({"kind": st.just("history"), "start": start_any, "nested": st.booleans(),
                                     "ops": st.lists(op, min_size=1, max_size=12)})

    # ---- (b)
    legacy = st.fixed_dictionaries({"kind": st.just("legacy"), "values": legacy_vals, "style": style})

    # ---- (c)
    def num(s, digits=4):
        return s.map(lambda v: repr(round(v, digits)))

    def answer_or_skip(s):
        return st.one_of(st.just(""), s)

    def run_record(friendly=False):
        vary_ok = st.sampled_from(["true", "false", "True", "False", "TRUE", " false "])
        vary_bad = st.sampled_from(["yes", "1", "t", "vary"])
        if friendly:
            vary = st.one_of(st.just([]), st.just([]), vary_ok.map(lambda v: [v]))
        else:
            vary = st.one_of(st.just([]), vary_ok.map(lambda v: [v]),
                             st.tuples(vary_bad, vary_ok | st.just("")).map(list))

        def pval(n):
            return value_for(n, friendly).map(repr)
        params = st.dictionaries(st.sampled_from(pnames), st.booleans(), max_size=len(pnames)).flatmap(
            lambda sel: st.fixed_dictionaries(
                {n: st.fixed_dictionaries({"value": answer_or_skip(pval(n)), "vary": vary}) for n in sel}))
        if friendly:
            # fit-friendly: keep E, geometry and the contact point varying state sane
            pre = st.one_of(st.just([]), any_sel.map(lambda s: [s]), any_sel.map(lambda s: [s, close_sel(s)]))
            left = answer_or_skip(num(st.floats(-6.0, -1.5), 2))
            right = answer_or_skip(num(st.floats(1.0, 6.0), 2))
            weight = answer_or_skip(num(st.floats(0.0, 1.0), 3) | st.just("0"))
            rtype = st.sampled_from(rot([["relative"], [], ["absolute"], ["relative"], []]))
            training = st.sampled_from(rot([["@user"], [], ["zef18"], [], ["nope", "@user"], ["@user/"], ["@user."]]))
        else:
            pre = st.one_of(st.just([]), any_sel.map(lambda s: [s]), valid_sel.map(lambda s: [s]),
                            fittable_sel.map(lambda s: [s]), st.tuples(any_sel, valid_sel | st.just([])).map(list))
            left = answer_or_skip(num(st.floats(-20.0, 20.0)) | st.sampled_from(["0", "-1.5", "1e-1", "-2"]))
            right = answer_or_skip(num(st.floats(-20.0, 20.0)) | st.sampled_from(["0", "2.5", "3", "1e1"]))
            weight = answer_or_skip(num(st.floats(0.0, 10.0)) | st.sampled_from(["0", "2", "0.5", "1e-1"]))
            rtype = st.one_of(st.just([]), st.sampled_from([["absolute"], ["relative"]]),
                              st.tuples(st.sampled_from(["rel", "Relative", "abs", "cp"]),
                                        st.sampled_from(["absolute", "relative", ""])).map(list))
            training = st.sampled_from([[], [], ["zef18"], ["@user"], ["nope", "@user"], ["nope"], ["@user/"], ["nope", "@user."],
                                        ["@emptydir", "zef18"], ["nope", "@emptydir", ""]])
        return st.fixed_dictionaries({
            "preprocessing": pre, "sep": st.sampled_from([",", ",", ", "]),
            "model": st.one_of(st.sampled_from(rot(batch_models)), st.none()) if friendly
            else st.one_of(st.none(), st.sampled_from(models)),
            "params": params, "range_type": rtype, "left": left, "right": right, "weight": weight,
            "training": training,
            "regressor": st.one_of(st.sampled_from(rot(regs)), st.none()) if friendly
            else st.one_of(st.none(), st.sampled_from(regs))})

    start_setup = st.one_of(
        st.just("fresh"), st.just("fresh"),
        st.fixed_dictionaries({"form": st.just("json"), "values": settings_dict(list(PINNED_DEFAULTS), valid=True)}),
        st.fixed_dictionaries({"form": st.just("legacy"), "values": settings_dict(LEGACY_KEYS, valid=True),
                               "style": style}))
    setup = st.fixed_dictionaries({"kind": st.just("setup"), "start": start_setup,
                                   "runs": st.lists(run_record(), min_size=1, max_size=3)})

    # ---- (d)
    curve = st.fixed_dictionaries({"efac": st.floats(0.5, 2.0), "n_app": st.integers(600, 680),
                                   "n_ret": st.integers(60, 200), "k": st.sampled_from([0.02, 0.05, 0.2]),
                                   "noise": st.sampled_from([0.003, 0.01, 0.02]), "seed": st.integers(0, 10000),
                                   "with_tip": st.booleans()})
    files = st.lists(st.fixed_dictionaries({"dir": st.sampled_from(["", "", "sub", "sub dir"]),
                                            "curves": st.lists(curve, min_size=1, max_size=2)}),
                     min_size=1, max_size=2).filter(lambda fs: sum(len(f["curves"]) for f in fs) <= 2)
    start_batch = st.one_of(
        st.just("fresh"), st.just("fresh"),
        st.fixed_dictionaries({"form": st.just("json"), "values": settings_dict(
            ["preprocessing", "preprocessing_options", "segment", "weight_cp", "rating regressor", "model_key"],
            friendly=True)}))
    batch = st.fixed_dictionaries({"kind": st.just("batch"), "start": start_batch,
                                   "runs": st.lists(run_record(friendly=True), min_size=1, max_size=2),
                                   "files": files, "recorded": st.booleans()})
    return {"history": history, "legacy": legacy, "setup": setup, "batch": batch}


ORACLES = {"history": check_history, "legacy": check_legacy, "setup": check_setup, "batch": check_batch,
           "defaults": check_defaults}


def run(ctx):
    _sync_defaults()
    S = strategies(ctx.shard + ctx.seed)
    if ctx.shard == 0:
        ctx.direct(check_defaults, {"kind": "defaults"}, label="defaults")
    ctx.hypothesis(S["history"], check_history, ctx.scale(600, 20000), label="history")
    ctx.hypothesis(S["legacy"], check_legacy, ctx.scale(300, 12000), label="legacy")
    ctx.hypothesis(S["setup"], check_setup, ctx.scale(400, 12000), label="setup")
    ctx.hypothesis(S["batch"], check_batch, ctx.scale(16, 240), label="batch")


def replay(case, ctx):
    _sync_defaults()
    ORACLES[case["kind"]](revive(case), ctx)
