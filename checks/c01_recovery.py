"""C01 — fitting recovers the parameters that generated the data.

Synthetic curves from the independent reference formulas (known truth), fitted from an
initial guess inside the stated convergence basin; ground-truth oracle.
"""
import numpy as np
from hypothesis import strategies as st

from vlib import fitgen, refmodels, synth

PROPERTY = "C01"
SHARDS = {"quick": 8, "thorough": 16}
RULE = ("Hypothesis draws (shipped model, parameter vector strictly inside the bounds with E over 4 decades, "
        "sampling linear/jittered/dithered (non-monotonic, neighbours swapped)/quadratic with 60-1500 points per segment, segment approach/retract, "
        "weighting distance 0..5e-6, minimizer leastsq/nelder, noise level 0 or 1e-4..3e-2 of the force "
        "range, initial guess inside the basin: modulus within a factor 2, contact point within 5 % of the "
        "depth, baseline within 5 % of the force range; optionally a prior fit on the same object whose request differs in "
        "one respect: parameter bounds / vary flag / expression, weighting or range). non-trivial = >= 20 in-contact points and the guess "
        "off truth by > 1 % in E and > 0.5 % of the depth in contact point; distinct = distinct case record")
TOL = {"leastsq": 1e-7, "nelder": 2e-3}
#: noise amplification constants: error <= C * sigma / sqrt(n_contact) (in natural units)
CNOISE = {"cp": 60.0, "bl": 30.0, "E": 120.0}
ASSUMPTIONS = [
    "stated convergence basin: initial modulus within a factor 2 of truth, contact point within +-5 % of the "
    "indentation depth, baseline within +-5 % of the force range, fixed parameters at truth (for the layered "
    "model E_L and t fixed at truth); outside it the weighted quadratic models have genuine second minima",
    "optimizer precision: 1e-7 (leastsq) / 2e-3 (nelder; its absolute xatol=1e-4 acts on E only, so the precision of the other parameters degrades for E ~ 30 Pa: 3.3e-4 observed) of the natural scale: depth for the contact point, force "
    "range for baseline and fit curve, relative for the modulus divided by the measured sensitivity s of the "
    "curve to the modulus (s = 1 for power-law models; layered model: s = max|F(1.01 E_S) - F(E_S)| / (0.01 range); "
    "cases with s < 0.05 are 'weakly identifiable': modulus not asserted; the same where the resulting noise bound "
    "on the modulus exceeds 50 % - the bound is a first-order error propagation and means 'not identifiable from this "
    "curve' there, counted as modulus_not_identifiable_skipped)",
    "noise tolerance: C x sigma_rel / sqrt(n_contact points) with C = %r (calibrated on the pinned tree as >= 5x "
    "the largest normalised error seen in 2e5 trials) plus the optimizer precision" % (CNOISE,),
    "nelder is judged only where the weighting distance does not exceed the indentation depth (beyond that every "
    "contact point is down-weighted and the simplex stops in a flat valley; counted as "
    "nelder_weighting_beyond_depth_skipped)",
    "minimizers: leastsq and nelder (scale free); scipy least_squares is excluded: its absolute gtol=1e-8 stops "
    "immediately on nN-scale residuals, which is scipy's scaling contract",
    "weighting distance is capped at 2x the indentation depth for noisy data (wider weighting leaves no fully "
    "weighted contact point and the noise amplification is unbounded)",
]


@st.composite
def st_case(draw):
    curve = draw(synth.st_curve(st, n_range=(60, 1500), with_tip=True,
                                sampling=("linear", "jitter", "dither", "quadratic"),
                                noise=st.sampled_from([0.0, 0.0, 0.0, 1e-4, 1e-3, 1e-2, 3e-2])))
    wcp = draw(st.sampled_from([0, False, 1e-8, 1e-7, 5e-7, 1e-6, 2e-6, 5e-6]))
    if curve["noise"] and wcp:
        wcp = min(wcp, 2 * curve["depth"])
    sgn = st.sampled_from([1.0, -1.0])
    cfg = {"segment": draw(st.sampled_from([0, 0, 1])),
           "weight_cp": wcp,
           "method": draw(st.sampled_from(["leastsq", "leastsq", "nelder"])),
           "e_factor": 10 ** (draw(sgn) * draw(st.floats(0.0, 0.3))),
           "cp_off": draw(sgn) * draw(st.floats(0.0, 0.05)),
           "bl_off": draw(sgn) * draw(st.floats(0.0, 0.05)),
           # a different fit performed on the same object first: the measured fit must not see its leftovers
           "prior": draw(st.sampled_from([None, None, "bounds", "vary", "weight", "range", "expr"])),
           # order in which the keywords are written in the call (fit_model(**kwargs) sees it)
           "kw_order": draw(st.sampled_from(["model_first", "params_first", "reverse_alpha"])),
           # entry point: Indentation.fit_model, or the public fitter class given the same keywords (on a curve that
           # may already carry the settings of the prior fit: the keywords say what is fitted)
           "route": draw(st.sampled_from(["fit_model", "fit_model", "fitter"]))}
    if draw(st.integers(0, 7)) == 0:
        # coarse sampling: the fitted segment holds only a handful of points ("any sampling"): noise-free,
        # unweighted, leastsq, half baseline / half indentation
        n = draw(st.integers(5, 14))
        key = "n_app" if cfg["segment"] == 0 else "n_ret"
        curve[key] = n
        curve["noise"] = 0.0
        curve["tilt"] = 0.0
        curve["sampling"] = "linear"
        curve["z0"] = curve["depth"] * draw(st.floats(0.4, 1.0))
        cfg.update(weight_cp=0, method="leastsq", prior=None, coarse=True)
    return {"curve": curve, "cfg": cfg}


def sensitivity(curve):
    model = curve["model"]
    if model != "power_layer_clifford_2009":
        return 1.0
    a = synth.arrays(curve)
    p2 = dict(curve["params"])
    p2["E_S"] *= 1.01
    f2 = refmodels.force(model, a["tip"], p2)
    return float(np.max(np.abs(f2 - a["clean"])) / (0.01 * a["frange"]))


def ordered_kwargs(kw, order):
    """the same keywords, written in another order"""
    if order == "params_first":
        keys = ["params_initial"] + [k for k in kw if k != "params_initial"]
    elif order == "reverse_alpha":
        keys = sorted(kw, reverse=True)
    else:
        keys = [k for k in kw if k != "params_initial"] + ["params_initial"]
        keys.remove("model_key")
        keys.insert(0, "model_key")
    return {k: kw[k] for k in keys}


def measure(case):
    """fit and return normalised errors (used by the check and by the calibration tool)"""
    curve, cfg = case["curve"], case["cfg"]
    idnt = synth.build(curve)
    pi = fitgen.initial_from_truth(curve, e_factor=cfg["e_factor"], cp_off=cfg["cp_off"], bl_off=cfg["bl_off"])
    kw = dict(model_key=curve["model"], segment=cfg["segment"], weight_cp=cfg["weight_cp"], method=cfg["method"],
              x_axis="tip position", y_axis="force")
    prior = cfg.get("prior")
    if prior:
        # same values, but the prior request differs in exactly one respect (bounds / vary flag / expression of
        # the initial parameters, weighting, range); its result is wrong on purpose and must be replaced
        p0 = fitgen.initial_from_truth(curve, e_factor=cfg["e_factor"], cp_off=cfg["cp_off"], bl_off=cfg["bl_off"])
        kw0 = dict(kw)
        cp0 = p0["contact_point"].value
        if prior == "bounds":
            p0["contact_point"].set(min=cp0 - 0.01 * curve["depth"], max=cp0 + 0.01 * curve["depth"])
            ek = refmodels.EKEY[curve["model"]]
            p0[ek].set(min=p0[ek].value * 0.999, max=p0[ek].value * 1.001)
        elif prior == "vary":
            p0["contact_point"].set(vary=False)
        elif prior == "expr":
            p0["baseline"].set(expr="0*contact_point + %r" % float(p0["baseline"].value))
        elif prior == "weight":
            kw0["weight_cp"] = 3e-7 if cfg["weight_cp"] != 3e-7 else 0
        elif prior == "range":
            kw0["range_x"] = [curve["params"]["contact_point"] - 0.4 * curve["depth"],
                              curve["params"]["contact_point"] + 0.5 * curve["z0"]]
            kw["range_x"] = [0, 0]
        try:
            idnt.fit_model(params_initial=p0, **kw0)
        except BaseException:  # noqa: the prior fit is only history
            pass
    if cfg.get("route") == "fitter":
        from nanite.fit import IndentationFitter
        fitter = IndentationFitter(idnt, **ordered_kwargs(dict(kw, params_initial=pi), cfg.get("kw_order")))
        fitter.fit()
        fp, fitcol = fitter.fp, fitter.fit_curve
    else:
        idnt.fit_model(**ordered_kwargs(dict(kw, params_initial=pi), cfg.get("kw_order")))
        fp, fitcol = idnt.fit_properties, None
    a = synth.arrays(curve)
    t = curve["params"]
    ek = refmodels.EKEY[curve["model"]]
    out = {"success": fp.get("success")}
    if fp.get("success"):
        pf = fp["params_fitted"]
        seg = a["segment"] == cfg["segment"]
        if fitcol is None:
            fitcol = idnt["fit"]
        out.update(cp=abs(pf["contact_point"].value - t["contact_point"]) / curve["depth"],
                   bl=abs(pf["baseline"].value - t["baseline"]) / a["frange"],
                   E=abs(pf[ek].value / t[ek] - 1),
                   fit=float(np.nanmax(np.abs(fitcol[seg] - a["clean"][seg])) / a["frange"]),
                   fit_nan_off=bool(np.all(np.isnan(fitcol[~seg]))),
                   n_contact=int(np.sum(seg & (a["tip"] < t["contact_point"]))))
    return out


def check_case(case, ctx):
    curve, cfg = case["curve"], case["cfg"]
    a = synth.arrays(curve)
    seg = a["segment"] == cfg["segment"]
    ncont = int(np.sum(seg & (a["tip"] < curve["params"]["contact_point"])))
    off = abs(np.log10(cfg["e_factor"])) > np.log10(1.01) and abs(cfg["cp_off"]) > 0.005
    s = sensitivity(curve)
    classes = [curve["model"], cfg["method"], f"segment{cfg['segment']}", "prior_" + str(cfg.get("prior")), "route_" + str(cfg.get("route", "fit_model")),
               "noisy" if curve["noise"] else "noise_free", "weighted" if cfg["weight_cp"] else "unweighted"]
    if s < 0.05:
        classes.append("weakly_identifiable")
    ctx.note_case(case, nontrivial=bool(ncont >= 20 and off), classes=classes)
    nseg = int(seg.sum())
    nvar = 3
    if cfg.get("coarse"):
        classes.append("coarse")
        # determined problem: more points than varied parameters + 1, >= 3 in contact, >= 2 on the baseline
        if not (nseg > nvar + 1 and ncont >= 3 and nseg - ncont >= 2):
            ctx.event("coarse_underdetermined_skipped")
            return
    elif ncont < 8:
        ctx.event("too_few_contact_points_skipped")
        return
    if cfg["method"] == "nelder" and cfg["weight_cp"] and cfg["weight_cp"] > curve["depth"]:
        # a weighting distance beyond the whole indentation down-weights every contact point: the objective is a flat
        # valley in which the simplex stops at its default tolerances; "optimizer precision" has no meaning there
        # (leastsq is exact on such curves and stays asserted)
        ctx.event("nelder_weighting_beyond_depth_skipped")
        return
    cp_init = curve["params"]["contact_point"] + cfg["cp_off"] * curve["depth"]
    desc = {"model": curve["model"], "method": cfg["method"], "noisy": bool(curve["noise"]),
            # scipy's Nelder-Mead builds its initial simplex from 5 % of each start *value* (2.5e-4 absolute
            # for an exact zero), not from the scale of the curve: for |cp_init| < 0.05 depth the simplex is
            # degenerate (or, for 0.0, 100x the curve), for |cp_init| > depth its edge exceeds the +-5 % basin.
            # Recorded finding F20, excluded by this signature.
            "nm_simplex": ("degenerate" if abs(cp_init) < 0.05 * curve["depth"] else
                           "overshoot" if abs(cp_init) > curve["depth"] else "ok")}
    with ctx.no_raise("fit-raises", desc) as guard:
        m = measure(case)
    if not guard.ok:
        return
    ctx.check(m["success"] is True, "not-successful", desc, f"success={m['success']!r}")
    tol = TOL[cfg["method"]]
    if cfg.get("coarse"):
        tol = 1e-5      # few points: the problem is determined but less well conditioned
    sig = curve["noise"] / np.sqrt(max(ncont, 1))
    # with weighting, the contact region carries less information: scale by the unweighted fraction
    if curve["noise"] and cfg["weight_cp"]:
        sig *= max(1.0, (cfg["weight_cp"] / curve["depth"]) * 4) ** 1.5
    lim = {"cp": tol + CNOISE["cp"] * sig, "bl": tol + CNOISE["bl"] * sig,
           "E": (10 * tol + CNOISE["E"] * sig) / max(s, 1e-12), "fit": 10 * tol + CNOISE["E"] * sig}
    for key in ("cp", "bl", "E", "fit"):
        if key == "E" and s < 0.05:
            continue
        if key == "E" and lim["E"] > 0.5:
            # the noise bound is a first-order error propagation: where it exceeds 50 % of the modulus (layered
            # model with the substrate barely felt, strong noise, few points) the modulus is not identifiable from
            # this curve and no tolerance "proportional to the noise level" exists
            ctx.event("modulus_not_identifiable_skipped")
            continue
        if m[key] <= lim[key]:
            ctx.extra["max_" + key + "_over_limit"] = max(ctx.extra.get("max_" + key + "_over_limit", 0.0), m[key] / lim[key])
        ctx.check(m[key] <= lim[key], f"{key}-not-recovered", desc,
                  f"normalised error {m[key]:.3e} > {lim[key]:.3e} (noise {curve['noise']}, n_contact {ncont}, "
                  f"weight_cp {cfg['weight_cp']}, segment {cfg['segment']}, sensitivity {s:.3g})")
    ctx.check(m["fit_nan_off"], "fit-not-nan-off-segment", desc, "fit column has numbers outside the fitted segment")


def run(ctx):
    ctx.hypothesis(st_case(), check_case, ctx.scale(3200, 200000), label="recovery")


def replay(case, ctx):
    check_case(case, ctx)
